"""Configuration of the C17 check (read by ./check and tools/mkmanifest.py)."""

CONF = dict(
    cmd='c17',
    props='Props/C17.v',
    rule=('histories of Do/Reset calls on the real filters. LuckyPacketFilter: capacities 1..16, pick 1..20 (also > capacity), the unconfigured filter, 1..200 samples, '
 'Reset at random positions (also doubled), round-trip delays pairwise distinct (random injection into a spread with step 1/2/1000/999983 ns) or tied (3 values, compared '
 'relationally), offsets from +-5 ns to +-2^61 ns, odd/even delays, server processing times, occasional wild timestamps (up to +-2^58 s, saturating Time.Sub). '
 'NtimedFilter: 1..200 samples of a delay process (base 500 ns..50 ms, jitter 0..50 %, drift) with one-sided (out or back), two-sided and unusually-fast outliers, '
 'denser at the 3rd/4th sample after a reset point; explicit Reset, clock-epoch changes (+1, -1, wrap-around, random) and both at random positions; a registered fake '
 'clock provides Epoch(); every stretch between reset points is also replayed on a new filter. Non-trivial: lucky history with capacity >= 2 that evicted from the window or '
 'contains a Reset; Ntimed history in which the filter replaced the midpoint (branch 2 or 3, read from its debug record) or with >= 4 samples after a reset point; '
 'lucky.reset / ntimed.reset (Reset equals fresh): a filter runs a prefix from one regime (Ntimed: in half of the cases one-way differences of 2^55..2^61 ns, whose averages leave a '
 'rounding residue in every state field), is Reset (explicitly, by a clock-epoch change, both, or twice) and runs a suffix from another regime with one-sided outliers after the warm-up '
 '(lucky: the prefix holds the lower delays); a newly constructed filter runs the same suffix; the two output lists must be identical and equal to the model; non-trivial: '
 'lucky with capacity >= 2 and >= 2 samples before the Reset, Ntimed with >= 4 samples before and >= 5 after the Reset and a replaced midpoint (branch 2/3) after it. '
 'lucky.wild / ntimed.wild: histories made of degenerate and out-of-range samples (identical timestamps, zero delay, negative round trip, negative processing time, hi < lo, '
 'one-way differences in [2^62, 2^63) ns, saturating differences beyond 292 years in one or both directions, the surroundings of the corner lo + hi >= 2^64 - 2^14 and its mirror image; the corner itself only for the lucky-packet filter), '
 'all non-trivial. ntimed.corner: 11 scripted one-sample histories around the corner (sRx = sTx = 0, cTx and cRx between 2^63 - 30001 and 2^63 + 5 ns), strict oracle. Ties on windows of at most 12 samples are compared exactly (stable insertion sort), on longer windows relationally; '
 'Capacities: 1..16 mostly, 17/31/32/33/64/100 in 1/40 of the lucky histories (long enough to fill the window, tie-free, judged by the exact oracle) and one history at 256; '
 'lucky.new: constructor arguments -3..20 and 17/31/32/33/64/100/256 with pick 1, cap/2, cap, cap+5, followed by a probe of 2(cap+3) samples (strictly increasing then strictly '
 'decreasing delays) whose outputs show the effective window size and pick count. Long histories: 300 and 600 samples per filter in the quick tier, 70000 in the thorough tier. '
 'lucky.inter / ntimed.inter: two or three instances with own configurations and sample streams called in a random interleaving (the clock may step between any two calls), each compared '
 'with its own model run and oracle. mono: a few histories whose client times derive from time.Now() and carry a monotonic reading. ntimed.epochsrc: one source check (go/ast) of '
 'driver/clocks/sysclk_linux.go. svc.filters: the service\'s own createClocks (wiring hook timeservice_wiring_verif.go through harness/svclib, nothing is started) on configurations with '
 '0-3 IP and 0-3 SCION NTP reference clocks in random order, 0-3 SCION peers, with/without a stub daemon, auth modes none/nts/spao/both: every client (1 per IP clock, 7 per SCION clock) '
 'must hold a *client.NtimedFilter and all filter pointers must be pairwise distinct; skipped with a NOTE when the hook is absent. distinct = distinct (kind, input)'),
    assumptions=['float64 arithmetic of Go on amd64 = IEEE-754 binary64 round-to-nearest-even without FMA contraction, math.Sqrt = correctly rounded SQRTSD (Flocq '
 'BinarySingleNaN); int64(float64) = CVTTSD2SQ (-2^63 when out of range)',
 'slices.SortFunc returns a sorted permutation (its contract); the lucky-packet selection theorem is proved for every such permutation under pairwise distinct delays '
 '(the property\'s quantifier); slices.SortFunc on at most 12 elements is insertionSortCmpFunc (Go 1.24 source, modelled literally as go_isort and proved to be the stable sort); '
 'tied delays on longer windows (pdqsort proper) are only compared relationally',
 'time.Time as unbounded nanoseconds, Time.Sub saturating; lucky-packet oracle for offsets below 2^62 ns (no int64 wrap in the even-count midpoint); '
 'numeric closeness of the Ntimed raw offset stated and proved for the model on every sample: against ntp.ClockOffset for one-way differences below 2^62 ns, against the offset over '
 'the integers -(lo+hi)/2 of the saturated differences beyond (ntp.ClockOffset itself wraps there), tolerance 2 ns + 2^-50 relative, judged strictly everywhere; finding '
 'ntimed-corner-wrong-sign (KNOWN_FINDINGS.txt): in the corner lo + hi >= 2^64 - 2^14 (both one-way differences within 8 us of +292 years) float64 mid*1e9 rounds to 2^63, int64() of it '
 'is -2^63 and timemath.Inv returns MaxInt64, i.e. +292 years for an offset of -292 years; corner samples are generated only under the kind ntimed.corner (11 scripted one-sample histories, '
 '4 of them wrong-sign = the known finding, 7 fine), the theorems C17_ntimed_oracle / _raw_close_oracle exclude the corner and C17_ntimed_sign_refuted / _oracle_refuted exhibit it',
 'the epoch the filter sees is what the registered clock reports during the call (fake clock scripted per call). That a clock STEP produces a new epoch is tied to the real clock only '
 'syntactically (the real SystemClock.Step calls adjtimex/clock_settime and cannot be run): case ntimed.epochsrc checks with go/ast that in driver/clocks/sysclk_linux.go '
 '(c *SystemClock) Step contains exactly one setOffset(...) call and exactly one c.epoch++, both top-level statements of the body, the increment after the call, no return/goto/function '
 'literal in between, that Epoch returns c.epoch, and that nothing else in the package mentions the field',
 'time.Time values carry no monotonic reading, or one consistent with the wall reading: on Linux timebase.Now() is time.Unix(clock_gettime) (none; sysclk_linux.go), kernel and wire '
 'timestamps have none; on other platforms sysclk_std.go returns time.Now().UTC(), which keeps the monotonic reading, and Time.Sub then uses it where both operands have one '
 '(ntp.RoundTripDelay: cRx.Sub(cTx)); such values are exercised (tag mono), a wall-clock step between cTx and cRx (monotonic and wall differences disagreeing) cannot be produced in a test',
 'build: GOARCH=amd64 with GOAMD64=v1 (no FMA contraction of x*y+z; with GOAMD64=v3 the compiler may fuse alo - loNoise*3, alolo - alo*alo, ... and the bit-exact comparison would report it); '
 'the harness records GOARCH, GOAMD64 and a run-time contraction test in a NOTE of the evidence'],
    trusted=['Flocq 4 (IEEE754.BinarySingleNaN) as the float64 semantics; theorems about the Ntimed model depend on the four standard-library axioms Flocq uses; the '
 'lucky-packet theorems are closed under the global context',
 'modelled, not verified: slices.SortFunc (pdqsort) by contract, time.Time.Sub/Duration.Seconds, math.Sqrt, Go float<->int conversions, log/slog (used for coverage '
 'tags only, never compared)'],
    technique=('Coq proofs over a Gallina model of LuckyPacketFilter (window shift, sort by delay, truncate, sort by offset, median) and NtimedFilter (bit-exact binary64 via '
 'Flocq): rank-based characterisation of the k lowest-delay samples proved equal to firstn k of every strictly sorted permutation, induction over Do/Reset histories with '
 'the invariant "state = last N samples since the last reset", counter invariant navg = float(min(n,20)) for the warm-up clause, case analysis of the branch selection, '
 'state-independence of a step at a reset point; rounding-error analysis of the raw offset over the reals (Flocq error_N_FLT per operation, linear real arithmetic); differential execution of the extracted model against the exported filters with a registered fake clock'),
    level_text=('Theorems quantify over all capacities, pick counts, histories, reset/epoch-change positions, timestamps (unbounded Z with Go\'s saturation/wrap written out) and, '
 'for the selection rule, over every sorted permutation the unstable sort may produce. The Ntimed model is compared bit-for-bit (in ns) with the Go filter on every run; the '
 'property oracle (selection-rule value; raw offset within float rounding and of the right sign on the first three samples after a reset point and on samples within the '
 'learned bounds; outputs equal to those of new filters started at every reset point) is evaluated on the implementation\'s outputs'),
    level_note=('The numeric clause is proved (C17_ntimed_raw_close, _raw_sign, _raw_close_oracle): |raw_f - ClockOffset| <= 2 ns + 2^-50 relative and same sign for all samples '
 'with one-way differences below 2^62 ns, from the Flocq semantics (four roundings at 2^-53 relative + underflow term, exact int->float below 2^53, truncating float->int); '
 'within 1 ns while |lo|+|hi| < 2^50 ns (C17_ntimed_raw_close_1ns); beyond 2^62 ns (Time.Sub saturating) the same bound against -(lo+hi)/2 over the integers (C17_ntimed_raw_wide), '
 'except in the corner lo + hi >= 2^64 - 2^14 where the sign clause is REFUTED (C17_ntimed_sign_refuted, C17_ntimed_raw_corner; known finding ntimed-corner-wrong-sign); C17_ntimed_oracle holds for all histories without a corner sample. Reset equals fresh is proved for all states of both filters '
 '(C17_lucky_reset_fresh/_state, C17_ntimed_reset_fresh/_state/_epoch_fresh) and checked on the implementation by the reset kinds. Ties: exact for windows of at most 12 samples '
 '(C17_lucky_ties: Go\'s insertion sort = stable sort, the older sample of equal delay is kept; the oracle judges these windows too); windows of 13 and more samples with tied delays '
 '(pdqsort proper, not modelled) are accepted by an executable relation (some choice among the tied samples) without a soundness theorem. "Within the learned bounds" is evaluated '
 'with the limits of the model state. One filter instance per client (the instance the reset/warm-up theorems speak about) is checked on the real createClocks (svc.filters, C17_filters_expected / _shared_rejected). '
 'Outside C17: the callers\' wiring (client_ip.go / client_scion.go handing t0..t3 to Filter.Do in this order - covered by C03) and the real SystemClock (only the syntactic tie ntimed.epochsrc).'),
    explanation=('C17_lucky_spec/_oracle: for all histories the configured filter returns the median offset of the min(k,N) lowest-delay samples of the last N since Reset; '
 'C17_ntimed_raw_young/_within: raw offset during warm-up and within bounds; C17_ntimed_raw_close/_sign: that raw offset is within 2 ns + 2^-50 relative of ntp.ClockOffset with its sign; '
 'C17_ntimed_reset/_restart/_reset_fresh: outputs after a reset point are those of a new filter, for all states; C17_lucky_reset_fresh: the same for the lucky-packet filter; '
 'C17_lucky_ties: equal delays keep the older sample (windows up to 12); C17_ntimed_raw_wide/_corner: behaviour beyond 2^62 ns; C17_ntimed_oracle: the model meets the whole Ntimed oracle on all histories.'),
    timeout_quick=600,
    timeout_thorough=3000,
    min_cases={'lucky.hist': 365, 'lucky.inter': 60, 'lucky.new': 16, 'lucky.reset': 120, 'lucky.wild': 90, 'ntimed.corner': 11, 'ntimed.epochsrc': 1, 'ntimed.hist': 364, 'ntimed.inter': 60, 'ntimed.reset': 120, 'ntimed.wild': 90, 'svc.filters': 12},
)
