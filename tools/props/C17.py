"""Configuration of the C17 check (read by ./check and tools/mkmanifest.py)."""

CONF = dict(
    cmd='c17',
    props='Props/C17.v',
    rule='(filled in below)',
    assumptions=[],
    trusted=[],
    technique='',
    level_text='',
    level_note='',
    explanation='',
    timeout_quick=600,
    timeout_thorough=3000,
)
