"""Configuration of the C16 check (read by ./check and tools/mkmanifest.py)."""

CONF = dict(
    cmd='c16',
    props='Props/C16.v',
    rule=('rounds of n = 0..7 scripted reference clocks (sometimes up to 28) run through the real MeasureClockOffsets inside a testing/synctest bubble: every clock '
 'completes before / exactly at / after the deadline or only once the context is cancelled (then immediately or later), ignoring or honouring the context, '
 'succeeding or failing; completion instants are drawn from a few values around the deadline so that completions coincide with each other and with the '
 'cancellation; deadlines from already expired (<= 0) through 1 ns to a year; duplicate results, stale slice content that looks like a fresh result, stale '
 'errors, mismatched slice lengths; goroutines of the bubble counted at instants around every event and after the last one. Histories: 2..5 calls on ONE '
 'collector object started while an earlier call is in progress / at the instant it returns / after it returned while its late clocks are still running, '
 'with length mismatches in between. Contexts: with a deadline, cancelled explicitly before the deadline, without deadline and cancelled explicitly, without '
 'deadline and not cancelled until every clock has completed; clocks that never complete whatever happens to the context. Races: 2..3 goroutines released from a '
 'spin barrier call MeasureClockOffsets on one collector at the same virtual instant with no synchronisation between them (5000 trials per quick run, varying '
 'per-caller delays and yielding). Sync iterations: the real sync.Run driven for 1..3 iterations (fake system clock whose Sleep ends the goroutine, recording adjuster, '
 '0..4 scripted reference clocks and 0..4 scripted peers per iteration completing before / at / after SyncTimeout, beyond SyncInterval, only on cancellation or '
 'never); observed per iteration: start, hand-over of the correction (adj.Do), Sleep call and argument, invocation and return of every source. Also: collectMeasurements itself through the hook core/client.VerifCollectMeasurements with the '
 'harness\'s own producers (kind collect.raw: the returned count j is observed); rounds of 34..100 clocks with more than 32 of them blocked; successful results '
 'with the zero time and/or a zero offset; clocks failing with context.DeadlineExceeded, ctx.Err() and wrapped errors; SyncTimeout 0 and SyncTimeout = '
 'SyncInterval/2; the correction handed to adj.Do compared with the fault-tolerant midpoints of the in-time successes (incl. Run\'s local clock) whenever no '
 'source completes exactly at the deadline; the slice is copied at the return instant and must not change afterwards.'
 ' Non-trivial: a round with >= 2 clocks of which at least one is not finished by the deadline (or finishes exactly at it) '
 'and at least one finishes by it; a history in which a call is made while another is in progress; a race with at least two callers whose rounds take time; a sync '
 'iteration with >= 2 sources of which at least one is not finished by SyncTimeout; '
 'distinct = distinct (kind, input)'),
    assumptions=['virtual time with maximal progress (testing/synctest semantics): time advances only when no goroutine can run; timed events fire in time order, events of one '
 'instant in any order',
 "Go's select picks any ready arm; an unbuffered channel send is a rendezvous; a cancelled context's Done channel stays closed",
 'one iteration of sync.Run = two instances of the collector model (reference clocks; peers plus the local clock Run appends) started at the same instant under '
 'the same timeout; Run hands the correction over at the later of the two returns (the channel hand-offs inside Run take no virtual time)',
 'a call starting at the very instant another call on the same collector returns may be refused or let in (both orders of the two events are schedules)',
 'a call of zero duration made at the same instant as another call cannot be told from one made just before it: the order-free oracle accepts it (a zero-duration '
 'call strictly inside another call\'s interval is rejected)',
 'hook: core/client/hooks_verif.go VerifCollectMeasurements (build tag verif, /repo 58e4cb9) exports collectMeasurements unchanged',
 'correction values: Model/Ftm.v (the C02 model of FaultTolerantMidpoint/Midpoint) is reused; the fake clock reports a drift so large that nothing is clamped, cutoff 0',
 'concurrent callers reach the compare-and-swap in some total order (linearizability of sync/atomic); the observation of a race case must be what the guard '
 'model does for one of the orders, and must satisfy an oracle that does not depend on the order',
 "the model's deadline is the instant at which the context's Done channel closes (deadline or explicit cancel, whichever is first)",
 'goroutines are counted per synctest bubble from runtime.Stack; scripted durations are doubled and counts taken at odd instants so that a count never races '
 'with an event of the same instant'],
    trusted=['modelled, not verified: goroutine scheduling, channel rendezvous, select, context.WithTimeout, atomic.CompareAndSwapUint32, defer/recover of the Go runtime',
 'testing/synctest (GOEXPERIMENT=synctest, go1.24.2) as the deterministic virtual-time scheduler; leaving the bubble without a deadlock panic means no goroutine '
 'of the round is blocked for ever',
 'panic classes are told apart by their message text (lengths / too many in progress / inconsistent count)'],
    technique=('Coq proof over a labelled transition system with virtual time (producers, collector select loop, drainer, cancellation, CAS guard): three inductive invariants '
 '(shape/goroutine accounting, time, received set and slice content) over all reachable states = all schedules, a termination measure (every schedule has '
 '<= 2n+2 transitions), analysis of the states where nothing is enabled; correspondence: the real MeasureClockOffsets under synctest, each observation '
 '(return time, slice, per-clock completion, goroutine counts, call outcomes of a history) must be reproduced by a schedule of the extracted LTS found by a '
 'guided search whose every transition goes through the model step function, and must satisfy the property oracle'),
    level_text=('Theorems hold for every number of clocks, every completion time (including never), every result, every deadline and every schedule of the model: return no '
 'later than the deadline (exactly min(deadline, last completion)), never blocked, slice = successful in-time results once each in order of receipt followed '
 'by untouched content with every strictly-early success present, no goroutine left once all calls have returned, guard refuses exactly the calls made while '
 'one is in progress and is released on return. The model is tied to the Go code through observable outcomes only (not through its internal states).'),
    level_note=('Trusted: Coq kernel, the hand-written LTS (validated every run by reproducing what the real code did under synctest), extraction, harness, synctest. The tie is '
 'through outcomes (return time, slice, goroutine counts, panics), as DESIGN section 6 states; the guard clause is proved for all call/return histories and the timed '
 'guard oracle is proved to accept every timed history of the guard model. Not modelled: shared state between successive rounds on one collector ("not silently interleaved" beyond the '
 'guard): a change that lets rounds share a channel or slice (seeded C16-m4) has no model-level counterpart; it is caught only because every round of a history is '
 'matched against its own single-round model. The release instant of the guard is proved on the composed guard+collector system (C16_guard_released_at_return). '
 'A case in which a call neither returns nor blocks for 120 s of wall-clock time is reported as a failing case (class 6) and ends the harness run. '
 'No axioms (Closed under the global context).'),
    explanation=('collectMeasurements/MeasureClockOffsets as a transition system; all schedules covered by invariants; real code run under virtual time and matched against '
 'a model schedule plus the property oracle'),
    timeout_quick=600,
    timeout_thorough=3000,
    min_cases={'collect': 2102, 'collect.raw': 902, 'history': 1050, 'race': 1530, 'sync.round': 751},
)
