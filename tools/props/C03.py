"""Configuration of the C03 check (read by ./check and tools/mkmanifest.py)."""

CONF = dict(
    cmd='c03',
    props='Props/C03.v',
    glue='Extract/GlueC03.v',
    rule='tbd',
    assumptions=[],
    trusted=[],
    technique='tbd',
    level_text='tbd',
    level_note='tbd',
    explanation='tbd',
    timeout_quick=900, timeout_thorough=3000,
)
