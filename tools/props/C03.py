"""Configuration of the C03 check (read by ./check and tools/mkmanifest.py)."""

CONF = dict(
    cmd='c03',
    props='Props/C03.v',
    glue='Extract/GlueC03.v',
    rule=('histories of 2..7 calls of the real client.MeasureClockOffsetIP (65 %) / client.MeasureClockOffsetSCION (35 %, one SCIONClient, empty path) with one '
          'IPClient/SCIONClient (interleaved mode on in 7 of 8 histories: up to 3 exchange attempts per call) against a scripted conformant peer on loopback '
          '(two references = two servers, each keeping (receive, transmit) records like core/server): the peer\'s clock is real time + theta, theta per exchange: 0, +-ns..+-60 years, '
          'at the 2036 era boundary, constant / jittering / stepping / unrelated between exchanges; per attempt the script delays either direction (0..4 ms), drops the request or '
          'the reply, duplicates the reply or the request (two handlings, replies in order or reversed), makes the server forget its records (basic reply to an interleaved request), '
          'puts junk / a foreign datagram / a stale reply (an earlier reply of the run, or the genuine one with its origin field off by one unit, swapped, zero, = the request\'s origin) '
          'ahead of the reply, sends only stale replies, bad metadata (stratum 0/16, mode, LI, version), or transmit < receive; between calls: nothing, a short pause, '
          'ResetInterleavedMode, a change of reference, a real 3 s pause, a client clock reading exactly 3 s + {-2..2 ns, +-1 us, +-1 s} after the previous transmit stamp (window edge), '
          'or a client clock reading after the 2036 era rollover. Recorded per attempt: request fields on the wire, the four timestamps handed to the measurements.Filter, offset and delay '
          'the client logged, receive time, client state (reflection), result of every call. SCION histories: replies without / with a receive-timestamp option (type 253) in software or raw-hardware form, whose value is then the receive time (an input of the model). A history is non-trivial when it contains an accepted interleaved response after a '
          'loss / duplicate / stale / junk / refused event; distinct = distinct (kind, input). Further kinds per run: c03.fallback (8: one basic exchange, IP and SCION, with hardware timestamping requested on the loopback interface so that every kernel timestamp read fails and the clock fallback is used; same oracle; known finding), '
          'c03.multi (2: MeasureClockOffsetSCION with two clients and two paths, one next hop answering garbage at once, the other delayed: the round must report the one successful measurement), c03.kstamps (per worker: at most 5 % of the ordinary attempts may use the clock fallback)'),
    assumptions=['the bound theorem covers exchanges whose t0 / t3 are the kernel transmit / receive timestamps (departure of the request, arrival of the reply); the clock fallback (cTxTime1 = timebase.Now() after the 1 ms poll of ReadTXTimestamp when no kernel transmit timestamp can be read, 1-2 ms late) is outside it and is a recorded finding (KNOWN_FINDINGS id clock-fallback-t0), reproduced every run by case kind c03.fallback under the same oracle',
                 'fresh_socket_per_request: only replies to copies of the current request reach its socket (the client opens a new socket per request); re-addressed copies of the reply to an earlier request with IDENTICAL timestamp fields (retry after a timeout) are outside the theorem',
                 'client_clock_strict: a reply arrives after its request was stamped, within one NTP era, so the two stamps differ as Time64 values',
                 'the server never reuses a receive stamp for this client (C06 proves this for the records it keeps); causality: a request copy is received after it was sent, a reply copy arrives after it was stamped; theta constant within one exchange, arbitrary across exchanges',
                 'numeric bound: all stamps within 2^31 s of the client clock reading, durations below 2^61 ns; time.Time as unbounded nanoseconds'],
    trusted=['modelled, not verified: the kernel (SO_TIMESTAMPING transmit/receive stamps are inputs of the model), Go net/slog/context, gopacket + scionproto slayers (SCION framing of the scripted peer and of the client)',
             'the harness reads the unexported client state (prev) by reflection and the client\'s own log records (offset, delay, receive time); no hook file'],
    technique=('Coq proof: integer arithmetic of ClockOffset/RoundTripDelay with int64 saturation and Time64 truncation (lia over Euclidean division); a transition system '
               'client x conformant server (reply contract of C06) x adversarial network with a ghost log of exchanges, an inductive invariant tying the client\'s stored stamps to one '
               'logged exchange, pairing and bound theorems for every accepted response of every reachable state; differential execution of the extracted model against the real '
               'IP and SCION clients on scripted loopback histories, property oracle evaluated on the stamps the implementation combined'),
    level_text=('Theorems hold for every finite run (any number of requests, any delays, losses, duplicates, reorderings, late copies of any earlier request reaching the server, any '
                'per-exchange server clock offset) under the hypotheses listed; the model is tied to measureClockOffsetIP/SCION, MeasureClockOffsetIP and the per-client loop of '
                'MeasureClockOffsetSCION, ntp.ClockOffset/RoundTripDelay/TimeFromTime64/Time64FromTime by replaying generated histories on the real code every run and comparing request '
                'fields, selected timestamps, offset, delay, state and call results; the C03 oracle (four stamps inside the bracket of ONE scripted exchange, |offset - theta| <= rtd/2 + 3 ns) '
                'is evaluated on the implementation\'s observations'),
    level_note=('Trusted: Coq kernel, hand-written model validated by the correspondence run, extraction, harness (scripted peer, recorders). Kernel timestamps are inputs; authentication '
                '(NTS, DRKey) is off in these runs (C05/C10/C13). No axioms.'),
    explanation='oracle clauses: the four stamps handed to the filter lie in the bracket of one scripted exchange (t1,t2 = its server stamps up to 1 ns, t0 between the client clock reading before the send and the peer\'s receipt, t3 between the peer\'s transmit stamp and the end of the attempt); 2|offset - theta| <= rtd + 6 ns with rtd recomputed from the stamps; a reported offset without an accepted exchange is rejected',
    timeout_quick=900, timeout_thorough=3000,
    min_cases={'c03.fallback': 2, 'c03.hist': 768, 'c03.kstamps': 4, 'c03.multi': 1},
)
