"""Configuration of the C03 check (read by ./check and tools/mkmanifest.py)."""

CONF = dict(
    cmd='c03',
    props='Props/C03.v',
    glue='Extract/GlueC03.v',
    rule=('c03.hist: histories of 2..7 calls of the real client.MeasureClockOffsetIP (65 %; of these 15 % over the IPv6 loopback address, 17 % with NTS: the server is the one the scripted '
          'key exchange names, one cookie per key exchange, so every lost reply forces a new key exchange that may name the other server) / client.MeasureClockOffsetSCION (35 %, one SCIONClient, '
          'empty path) with one IPClient/SCIONClient (interleaved mode on in 7 of 8 histories: up to 3 exchange attempts per call) against a scripted conformant peer on loopback '
          '(two references = two servers, each keeping (receive, transmit) records like core/server): the peer\'s clock is real time + theta, theta per exchange: 0, +-ns..+-60 years, '
          'at the 2036 era boundary, constant / jittering / stepping / unrelated between exchanges; per attempt the script delays either direction (0..4 ms), drops the request or '
          'the reply, releases the reply only when the NEXT request arrives (to the socket of the request it answers), duplicates the reply or the request (two handlings, replies in order or reversed), '
          'makes the server forget its records (basic reply to an interleaved request), puts junk (too short / longer than the client\'s buffer, i.e. truncation flags / from another address or AS, in SCION with a '
          'receive-timestamp option) or a stale reply (an earlier reply of the run, or the genuine one with its origin field off by one unit, swapped, zero, = the request\'s origin) '
          'ahead of the reply, sends only stale replies, bad metadata (stratum 0/16, mode, LI, version), or transmit < receive; a lost reply is a real deadline (150 ms) in 1 of 5 cases and otherwise two junk datagrams that end the attempt, '
          'so that no verdict depends on a wall-clock margin; between calls: nothing, a short pause, '
          'ResetInterleavedMode, a change of reference, a real 3 s pause, a client clock reading exactly 3 s + {-2..2 ns, +-1 us, +-1 s} after the previous transmit stamp (window edge), '
          'or a client clock reading after the 2036 era rollover. Recorded per attempt: the server the request reached and its fields on the wire, its source port, the four timestamps handed to the measurements.Filter, offset and delay '
          'as logged by the client (when its log records carry them; recomputed with ntp.ClockOffset/RoundTripDelay otherwise), receive time, client state (reflection), result of every call. SCION histories: replies without / with a '
          'receive-timestamp option (type 253) in software or raw-hardware form, whose value is then the receive time (an input of the model), and with a hop-by-hop option of the same type naming another time (must be ignored). '
          'An exchange whose client stamps were clock readings (kernel timestamp not readable) is judged by the relaxed clause of the oracle. A history the harness cannot record (peer and client disagree on the number of requests, a timeout '
          'although a decisive datagram was sent) is run again up to 3 times and counted. A history is non-trivial when it contains an accepted interleaved response after a '
          'loss / duplicate / stale / junk / refused event; distinct = distinct (kind, input). Further kinds per run: c03.fallback (8: one basic exchange, IP and SCION, with hardware timestamping requested on the loopback interface so that every '
          'kernel timestamp read fails and the clock fallback is used; strict oracle; known finding), c03.nofilter (96: one basic exchange of a client WITHOUT measurement filter and with a histogram, IP / IPv6 / SCION: the offset returned must be '
          'explained by a transmit stamp inside the bracket of the exchange, the histogram holds its delay), c03.multi (6 = 2 x 3 rounds of MeasureClockOffsetSCION with two clients and two paths: a straggler whose reply is released after the round\'s context '
          'ended, a next hop answering garbage, a failure collected before the success; every round must report its one completed measurement; the peer waits for the events it needs, no races), c03.kstamps (per worker: clock-fallback rate, share of '
          'histories not recordable, share of consecutive requests sent from the same source port)'),
    assumptions=['the bound theorem covers exchanges whose t0 / t3 are the kernel transmit / receive timestamps (departure of the request, arrival of the reply); the clock fallback (cTxTime1 = timebase.Now() after the 1 ms poll of ReadTXTimestamp when no kernel transmit timestamp can be read, 1-2 ms late) is outside it and is a recorded finding (KNOWN_FINDINGS id clock-fallback-t0), reproduced every run by case kind c03.fallback under the same oracle',
                 'fresh_socket_per_request: only replies to copies of the current request reach its socket (the client opens a new socket per request; tied to the code by observing the source ports of consecutive requests and by late replies addressed to the old socket); re-addressed copies of the reply to an earlier request with IDENTICAL timestamp fields (retry after a timeout) are outside the theorem',
                 'client_clock_strict: a reply arrives after its request was stamped and less than 2^32 s later (the period of Time64 values; the exchange may straddle an NTP era rollover), so the two stamps differ as Time64 values',
                 'SCION: the receive time t3 is taken from the UNAUTHENTICATED end-to-end receive-timestamp option (type 253) of the response when present; in the world model it is the input crx subject to arrival_ok, i.e. for SCION the bound holds for honest forwarders only (an on-path element that rewrites the option moves t3 at will); the harness checks that only the option of the accepted packet is used',
                 'the server never reuses a receive stamp for this client (C06 proves this for the records it keeps); causality: a request copy is received after it was sent, a reply copy arrives after it was stamped; theta constant within one exchange, arbitrary across exchanges',
                 'numeric bound: all stamps within 2^31 s of the client clock reading, durations below 2^61 ns; time.Time as unbounded nanoseconds'],
    trusted=['modelled, not verified: the kernel (SO_TIMESTAMPING transmit/receive stamps are inputs of the model), Go net/slog/context, gopacket + scionproto slayers (SCION framing of the scripted peer and of the client)',
             'the harness reads the unexported client state (prev) by reflection and the client\'s own log records (offset, delay, receive time); no hook file'],
    technique=('Coq proof: integer arithmetic of ClockOffset/RoundTripDelay with int64 saturation and Time64 truncation (lia over Euclidean division); a transition system '
               'client x conformant server (reply contract of C06) x adversarial network with a ghost log of exchanges, an inductive invariant tying the client\'s stored stamps to one '
               'logged exchange, pairing and bound theorems for every accepted response of every reachable state; differential execution of the extracted model against the real '
               'IP and SCION clients on scripted loopback histories, property oracle evaluated on the stamps the implementation combined'),
    level_text=('Theorems hold for every finite run (any number of requests, any delays, losses, duplicates, reorderings, late copies of any earlier request reaching the server, any '
                'per-exchange server clock offset) under the hypotheses listed; the model is tied to measureClockOffsetIP/SCION, MeasureClockOffsetIP and the per-client loop of '
                'MeasureClockOffsetSCION, ntp.ClockOffset/RoundTripDelay/TimeFromTime64/Time64FromTime by replaying generated histories on the real code every run and comparing request '
                'fields, selected timestamps, offset, delay, state and call results; the C03 oracle (four stamps inside the bracket of ONE scripted exchange, |offset - theta| <= rtd/2 + 3 ns) '
                'is evaluated on the implementation\'s observations'),
    level_note=('Trusted: Coq kernel, hand-written model validated by the correspondence run, extraction, harness (scripted peer, recorders). Kernel timestamps are inputs; the SCION receive-timestamp option is an unauthenticated input (honest forwarders assumed). NTS histories exercise the rewrite of the server address from the key-exchange data, not the '
                'authentication itself (C05/C10); DRKey authentication is off (C13). No axioms.'),
    explanation='oracle clauses: the four stamps handed to the filter lie in the bracket of one scripted exchange (t1,t2 = its server stamps up to 1 ns, t0 between the client clock reading before the send and the peer\'s receipt, t3 between the peer\'s transmit stamp and the end of the attempt); 2|offset - theta| <= rtd + 6 ns with rtd recomputed from the stamps; for an exchange whose client stamps were clock readings: t0, t3 inside the attempt and |offset - theta| <= length of the attempt; a reported offset without an accepted exchange is rejected; c03.multi: a round with a completed measurement must report it; c03.nofilter: the transmit stamp that explains the returned offset lies in the bracket; c03.kstamps: at most half of the exchanges use the clock fallback and at most half of the consecutive requests share a source port; correspondence clauses: at most 5 % of the histories not recordable, the receive time used is not earlier than the departure of the first datagram of the attempt',
    timeout_quick=900, timeout_thorough=3000,
    min_cases={'c03.fallback': 2, 'c03.hist': 768, 'c03.kstamps': 4, 'c03.multi': 1, 'c03.nofilter': 28},
)
