"""Configuration of the C13 check (read by ./check and tools/mkmanifest.py)."""

CONF = dict(
    cmd='c13',
    props='Props/C13.v',
    rule=('(srv) histories of 1..6 crafted SCION datagrams sent on loopback to the real StartSCIONServer (its own port and its end-host port 30041) and the real '
          'StartSCIONDispatcher, USE_MOCK_KEYS=true: IPv4/IPv6/mixed host addresses, empty / 1-3 segment SCION (up to 20 hops per segment) / complete and incomplete '
          'one-hop paths, NTP requests valid or not, SCMP echo/traceroute/other, L4 ports = service port / another end-host port with a harness socket behind it / '
          '30041; authenticator option valid, random or zero MAC, SPI of the other direction, other algorithm, other length, two authenticators in both orders, after '
          'another option, non-zero timestamp/sequence number, with a hop-by-hop extension in front; then single-bit mutations of the MAC, the option metadata, the '
          'common header, the address header, the path, the L4 header and the payload; repeats and mutated repeats of a verified datagram right after it. Every datagram '
          'seen afterwards at any of 11 harness sockets (senders, forward targets, a socket at the SCION source address) is recorded; reply/no reply by a sentinel request '
          'from the same socket. (cli) the real SCIONClient (MeasureClockOffsetSCION, recording filter and log) with authentication on/off, IPv4 or IPv6 underlay, '
          'empty/SCION/one-hop path, 1..3 exchanges per client against a scripted next hop delivering 0..3 responses each: built by the harness (12 authenticator '
          'variants, wrong ISD-AS/host, IPv4-mapped source, SCMP, NTP origin/metadata/timestamp defects) or the real listener\'s answer to the client\'s own request '
          '(possibly damaged on the way there), each possibly with a one-bit mutation. (probe) datagrams whose MAC cannot be computed (unregistered path type) in '
          'throw-away processes. (srv.keyed) a second child without mock keys: the listener fetches its DRKeys over gRPC from a fake DRKey daemon run by the harness '
          '(host-AS key = hash of protocol, server ISD-AS and host, client ISD-AS, epoch; host-host key by the project\'s DeriveHostHostKey), histories of 3..8 requests from one socket '
          '(one listener goroutine, one Fetcher cache) addressed to 2-3 SCION host addresses of the server by 2-3 client hosts of one or two ISD-ASes: MAC under the key of the addressed host, '
          'of another server host, of another client host/AS, under the mock key, damaged; the recomputed MAC handed to the model is the one under the key of the ADDRESSED host. Non-trivial: every history/exchange generated this way (each contains at least one datagram that reaches the authentication, '
          'addressing or forwarding decision); distinct = distinct (kind, input)'),
    assumptions=['ideal MAC for the mutation theorems (no two MAC inputs share a tag under one key; consistency shown by an injective instance); every other theorem holds for an arbitrary MAC function',
                 'DRKey fetch outcome (key or failure) is a universally quantified input; with USE_MOCK_KEYS the harness and both ends use the all-zero key',
                 'scionproto: parsing (gopacket DecodingLayerParser with the listener\'s / the client\'s own layer set), serialisation, Path.Reverse and the construction of the CMAC input are inputs: the harness parses every datagram with the same parser configuration, recomputes Path.Reverse and spao.ComputeAuthCMAC with the same library, and the runner checks that the model\'s queries are the ones these answers belong to',
                 '"carries an authenticator" = the first authenticator option of the end-to-end extension (slayers.FindOption) with 28 bytes of data, the SPI of the direction and algorithm 0; an authenticator hidden behind another authenticator option is not looked at by either side',
                 'the NTP part (payload validity, reply payload) is an input (C06/C09); a reversed path has a registered path type; a CMAC tag has 16 bytes (roundtrip theorem)',
                 'whether the kernel delivered a receive timestamp (extra option in forwarded packets) is free'],
    trusted=['modelled, not verified: gopacket + scionproto slayers/spao/path libraries, AES-CMAC, kernel UDP sockets and SO_REUSEPORT (one source 4-tuple stays on one listener goroutine, so the sentinel is handled after the probe)',
             'the listeners and the client run in a child process of the harness; a dead or silent child is reported as a failing case'],
    technique=('Coq proof by case analysis over the listener step and induction over the list of datagrams delivered to the client (retry rule), MAC / Path.Reverse / key fetch / NTP part '
               'as universally quantified Section variables, ideal-MAC hypothesis only where a mutation has to change the tag; differential execution of the extracted model against the '
               'real listener, dispatcher and client on loopback and evaluation of the C13 oracle on every observation'),
    level_text=('Theorems hold for all packets (address families, path types and lengths, option lists, payloads), all listener configurations (own port, end-host port, dispatcher; '
                'authentication on/off), all key-fetch outcomes, all MAC functions and all sequences of datagrams reaching a client: bad MAC never served / never accepted, reply to a '
                'verified request is authenticated for and accepted by the requesting client, reply addressing, forwarded iff received on the end-host port for another port that is '
                'not the end-host port. The model is tied to StartSCIONServer / StartSCIONDispatcher / MeasureClockOffsetSCION on every run; the oracle is evaluated on the implementation\'s observations'),
    level_note=('Trusted: Coq kernel, the hand-written model (validated by the correspondence run), extraction, harness, scionproto/gopacket/kernel as inputs. Cryptographic strength is symbolic. '
                'The oracle holds on the model as one boolean theorem for each side: C13_srv_oracle_holds_on_model (every listener configuration, datagram, ancillary data, MAC / Path.Reverse / key fetch / NTP function, '
                'socket set; hypotheses: 16-byte tags, extension order of the parser, key available on an authenticating listener) and C13_cli_oracle_holds_on_model. No axioms (Closed under the global context).'),
    explanation=('oracle clauses: (1) authenticator with client SPI/algorithm on an authenticating listener whose recomputed MAC differs => nothing is sent; (2) verified request => every reply carries the '
                 'server-direction authenticator whose MAC equals the recomputed MAC of the reply, extension directly in front of UDP; (3) at most one datagram results, and it is either a reply at the '
                 'sending socket with ISD-AS/host/ports exchanged, the recomputed reversed path, SCMP payload echoed, or a forward at the socket of (destination host, L4 port) with addressing, path and '
                 'payload unchanged, only from port 30041 and never to 30041 or the service port; (4) a packet that is due for forwarding to a visible socket is forwarded; client: request of an '
                 'authenticating client carries a valid client-direction authenticator, an accepted response does not carry a server-direction authenticator with a wrong MAC'),
    timeout_quick=900,
    timeout_thorough=3000,
    min_cases={'cli': 90, 'cli.probe': 1, 'srv': 1001, 'srv.keyed': 75, 'srv.probe': 1},
)
