"""Configuration of the C13 check (read by ./check and tools/mkmanifest.py)."""

CONF = dict(
    cmd='c13',
    props='Props/C13.v',
    rule='TODO',
    assumptions=[],
    trusted=[],
    technique='TODO',
    level_text='TODO',
    level_note='TODO',
    explanation='TODO',
    timeout_quick=900,
    timeout_thorough=3000,
)
