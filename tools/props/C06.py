"""Configuration of the C06 check (read by ./check and tools/mkmanifest.py)."""

CONF = dict(
    cmd='c06l',
    props='Props/C06.v',
    glue='Extract/GlueC06.v',
    rule=('histories of 5..400 operations on the real handleRequest/updateTXTimestamp (verif hook, scripted clock) from 1..6 clients: requests whose origin is the '
          'receive stamp of an earlier reply to the same client / to another client / random / zero, with receive == or != transmit field; receive times colliding with, '
          '1 ns after, or earlier than stored ones, or equal to another client\'s; clock readings earlier than, equal to, 1-2 ns after or well after the receive time; '
          'transmit-timestamp reports that repeat the reported value (unread), are not later than the receive time, or are later (kernel), delivered in order, delayed past '
          'later operations, duplicated, or for exchanges not on record; bursts that fill the 8 slots of one client. After every operation the reply, the reported times, the '
          'client\'s stored exchanges and the queue are recorded. A history is non-trivial when it contains at least one interleaved reply, one receive-time collision and '
          'one dropped exchange. '
          'tss.full: the same operations on the store at its real capacity 2^20 - known clients holding 1..8 exchanges (incl. full items), newcomers older than / as recent as / '
          '1 ns older than / newer than the least recently active client, clients that lost their state and come back naming their old exchange - every operation with the '
          'client\'s REAL item before and after (hook VerifTSSClient); non-trivial = an interleaved reply from a multi-exchange item, a collision and a dropped exchange while the '
          'store is full. tss.flood: every newcomer\'s request names another client\'s receive stamp with receive != transmit field and its reply is checked; afterwards probes '
          '(own / foreign / replaced origin) of newcomers with and without state, evicted and surviving base clients, each with real before/after items. '
          'lsn.hist: histories of 6..100 NTP requests played against the REAL IP and SCION listeners (StartIPServer, StartSCIONServer in a child process on loopback, real clock, '
          'kernel timestamps), one request in flight at a time, from 4 addresses x 3 ports (IP; equal port numbers on all addresses) and 3 ISD-ASes x 3 hosts x 2 UDP ports x 2 '
          'underlay sockets (SCION; one host equals an IP client\'s address): interleaved requests built from earlier replies of the same client (same or another socket, '
          'most recent or older than the 8 kept), requests naming another client\'s exchange (other address / same host under another ISD-AS / same ISD-AS other host / '
          'the other listener), duplicated request datagrams, origin on record but receive == transmit field; observed: origin, receive, transmit and reference stamp of every '
          'reply datagram. A client is what the listeners key the store with: the source address (IP) or (ISD-AS, host address) (SCION); the UDP port is not part of the identity. '
          'Non-trivial = at least one interleaved reply and one request naming another client\'s exchange. '
          'lsn.slowlink: the same listeners in a network namespace of their own whose loopback is rate-limited (unshare -n; tc tbf 256kbit burst 1540): one client socket per history sends bursts of 1..6 '
          'requests back to back, pauses 0..250 ms, and continues interleaved with the receive stamps of the previous bursts; replies that find the token bucket empty are transmitted milliseconds after '
          'sendmsg, so the listener cannot read their kernel transmit timestamp in time and the stamp arrives late. Observed besides the datagrams: the harness\'s clock reading after each reply and the '
          'listener\'s own "failed to read packet tx timestamp" reports, attributed to exchanges by time. Oracle: the listener oracle plus - an exchange reported unread is never served; a served transmit '
          'stamp is not earlier than the transmit field of the earlier BASIC reply it belongs to and not later than the moment the client had that reply. Non-trivial = an interleaved reply after an '
          'unread stamp on that socket. Skipped with a NOTE (no floor) where unshare/tc are not permitted. '
          'lsn.hist also: NTS-authenticated requests (real cookies of the listeners\' key provider), SCMP echo requests through the same SCION listener loop, 4 addresses x 6 ports; the CLIENT sockets '
          'take kernel receive timestamps, so the client\'s receipt of every reply is known; the listeners\' "failed to read packet tx timestamp" reports are collected (unexplained basic replies are '
          'tolerated only up to the number of such reports); after every history the keys of the store are compared with the ids of the clients that were answered. '
          'lsn.fallback: the receive timestamps of the listener sockets are switched off (SOF_TIMESTAMPING_OPT_RX_FILTER; transmit stamps keep working) and the clock the listeners read is scripted, so that '
          'requests take the rxt = Now() path with receive times chosen by the harness: equal to / 1 ns around the receive time of an exchange on record (the uniqueness loop runs AT THE LISTENER and the '
          'transmit-timestamp report must be made for the moved time) or elsewhere in the past, handling time not later than / 1-2 ns after / well after it; non-trivial = a collision at the listener and an interleaved reply. '
          'lsn.noreply: a request that the REAL SCION listener accepts but cannot answer (path it cannot reverse: path type SCION with segment lengths {0,0,0} / an unknown path type), then a request of the same client claiming its interleaved continuation (origin = the receive stamp the store holds for the client after the first request, read through the hook; receive != transmit field); observed: whether the first request was answered, the client\'s record after it, the second reply and the record after it; oracle: an exchange without a reply is not on record, the second reply is basic, the record then holds that exchange only; non-trivial = first request unanswered and second answered. Second family (tag ip-port0), the REAL IP listener: the unanswerable request is a raw IPv4/UDP datagram with UDP source port 0 from one of the client addresses (the listener handles it, the kernel refuses its reply to port 0: failed write), the continuation comes from a socket on the same address (the IP client id is the address); same observations, same oracle. The no-cookie paths and the SCION failed write are covered by the theorem only. '
          'tss.era: hook-level histories with the clock at the NTP era rollover 2036-02-07T06:28:16Z (requests received before, handled or reported after it), era-aware order on stamps. '
          'tss.conc: 8..32 goroutines calling the hook entry points at once on the store filled to 2^20 (each client driven by one goroutine; newcomers evicting / served without state), replies and final items '
          'compared per client with the model in program order. Thorough: lsn.race = the listeners serving 13 client identities at the same time in a -race build of the child; '
          'distinct = distinct (kind, input)'),
    assumptions=['all times of one history lie in one NTP era (Time64 comparison wraps at era boundaries; the 2036 rollover is outside the statement)',
                 'code under tssMu is one atomic step (see C07 for the lock discipline)',
                 'time.Time as unbounded nanoseconds; Time.Add exact, Before is <'],
    trusted=['modelled, not verified: container/heap (by contract: Pop returns a minimum), Go maps, the verif hook core/server/hooks_verif.go (add-only entry points and snapshot)',
             'lsn.hist: the loopback kernel (software receive/transmit timestamps from one clock; SO_REUSEPORT keeps one 4-tuple on one listener goroutine), gopacket/slayers used to build and parse the SCION datagrams'],
    technique=('Coq proof: one inductive invariant of the timestamp store preserved by handleRequest and updateTXTimestamp for every operation list (distinct receive stamps '
               'per client, tx > rx for every record, queue value >= every stored stamp, index = map), a ghost log of replies for provenance/isolation, termination of the '
               'collision loop by a counting measure; differential execution of the extracted model and evaluation of the reply/record oracle on the real code through the hook; a listener-level oracle over what is visible on the wire, proved to accept the projection of every run of the model, evaluated on datagrams of the real listeners, plus a relational replay of each listener history on the model'),
    level_text=('Theorems hold for every finite history of requests and transmit-timestamp reports of any mix of clients (any interleaving of listeners is such a history), all '
                'receive times / clock readings / reported times within one NTP era, all capacities; the model is tied to handleRequest/updateTXTimestamp by replaying '
                'generated histories on the real code every run and comparing replies, reported times and stored exchanges; the C06 oracle is evaluated on the implementation\'s observations. The wiring of the listeners (client identity = address resp. ISD-AS+host, receive stamp of THIS datagram, transmit-timestamp report with the final receive time and the kernel stamp of THIS reply) is inside the check: C06_listener_oracle shows that the wire-level oracle (basic/interleaved shape; interleaved only for a receive stamp an earlier reply to the SAME client carried; served transmit stamp later than it) holds for every history of the model, and it is evaluated on reply datagrams of the real IP and SCION listeners on loopback'),
    level_note=('Trusted: Coq kernel, hand-written model validated by the correspondence run, extraction, harness, hook. One NTP era. At the listeners the kernel transmit stamp and the clock reading are not observable: '
                'that the served transmit stamp is the kernel stamp of THAT reply is checked relationally (between the software transmit time of that exchange and the receive stamp of the '
                'request that asks for it), not by the property oracle; receive-time collisions cannot be produced through the kernel (hook-level kinds only). No axioms.'),
    explanation='oracle clauses: reply carries the receive stamp, fresh for the client; basic/interleaved shape; interleaved iff own record with that receive stamp and rx != tx; served transmit stamp later than its receive stamp; reported transmit time recorded, unread one dropped; listener oracle: basic/interleaved shape, interleaved only if an earlier reply to the same client carried the named receive stamp (isolation), served transmit stamp later than it, own receive stamp different; slow link: unread exchange dropped not served, served stamp between the software transmit time of its exchange and the client\'s receipt of that reply; per request also: reported receive time = first free stamp at or after the given one, moved by <= 1 ns per kept exchange; the reply\'s exchange is on record afterwards (unless served without state) and nothing else appeared; report: a given time later than the receive time is handed back unchanged (times compared, not stamps); at the listeners additionally: receive stamp distinct from every earlier one of the client, rx < tx, served stamp <= the client\'s KERNEL receive stamp of that reply, interleaved whenever the most recent exchange of the client (stamp read) is named with rx != tx, receive stamp = scripted clock reading when the kernel gave none',
    timeout_quick=900, timeout_thorough=3000,
    extra_thorough=[dict(cmd='c06race', race=True)],
    no_floor=['lsn.slowlink', 'lsn.fallback'],
    min_cases={'lsn.hist': 48, 'lsn.noreply': 5, 'tss.conc': 1, 'tss.era': 30, 'tss.flood': 1, 'tss.full': 1, 'tss.hist': 210, 'tss.lockdiscipline': 1},
)
