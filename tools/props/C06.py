"""Configuration of the C06 check (read by ./check and tools/mkmanifest.py)."""

CONF = dict(
    cmd='c06',
    props='Props/C06.v',
    glue='Extract/GlueC06.v',
    rule=('histories of 5..400 operations on the real handleRequest/updateTXTimestamp (verif hook, scripted clock) from 1..6 clients: requests whose origin is the '
          'receive stamp of an earlier reply to the same client / to another client / random / zero, with receive == or != transmit field; receive times colliding with, '
          '1 ns after, or earlier than stored ones, or equal to another client\'s; clock readings earlier than, equal to, 1-2 ns after or well after the receive time; '
          'transmit-timestamp reports that repeat the reported value (unread), are not later than the receive time, or are later (kernel), delivered in order, delayed past '
          'later operations, duplicated, or for exchanges not on record; bursts that fill the 8 slots of one client. After every operation the reply, the reported times, the '
          'client\'s stored exchanges and the queue are recorded. A history is non-trivial when it contains at least one interleaved reply, one receive-time collision and '
          'one dropped exchange; distinct = distinct (kind, input)'),
    assumptions=['all times of one history lie in one NTP era (Time64 comparison wraps at era boundaries; the 2036 rollover is outside the statement)',
                 'code under tssMu is one atomic step (see C07 for the lock discipline)',
                 'time.Time as unbounded nanoseconds; Time.Add exact, Before is <'],
    trusted=['modelled, not verified: container/heap (by contract: Pop returns a minimum), Go maps, the verif hook core/server/hooks_verif.go (add-only entry points and snapshot)'],
    technique=('Coq proof: one inductive invariant of the timestamp store preserved by handleRequest and updateTXTimestamp for every operation list (distinct receive stamps '
               'per client, tx > rx for every record, queue value >= every stored stamp, index = map), a ghost log of replies for provenance/isolation, termination of the '
               'collision loop by a counting measure; differential execution of the extracted model and evaluation of the reply/record oracle on the real code through the hook'),
    level_text=('Theorems hold for every finite history of requests and transmit-timestamp reports of any mix of clients (any interleaving of listeners is such a history), all '
                'receive times / clock readings / reported times within one NTP era, all capacities; the model is tied to handleRequest/updateTXTimestamp by replaying '
                'generated histories on the real code every run and comparing replies, reported times and stored exchanges; the C06 oracle is evaluated on the implementation\'s observations'),
    level_note=('Trusted: Coq kernel, hand-written model validated by the correspondence run, extraction, harness, hook. One NTP era. The listeners that call these functions are '
                'covered by C09/C13. No axioms.'),
    explanation='oracle clauses: reply carries the receive stamp, fresh for the client; basic/interleaved shape; interleaved iff own record with that receive stamp and rx != tx; served transmit stamp later than its receive stamp; reported transmit time recorded, unread one dropped',
    timeout_quick=900, timeout_thorough=3000,
    min_cases={'tss.flood': 1, 'tss.hist': 210, 'tss.lockdiscipline': 1},
)
