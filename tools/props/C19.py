"""Configuration of the C19 check (read by ./check and tools/mkmanifest.py)."""

CONF = dict(
    cmd='c19',
    props='Props/C19.v',
    rule=('histories of 6..260 Pll.Do updates on a fresh real Pll behind a scripted fake timebase.SystemClock: clock readings with gaps chosen around the 2 s / 6 s / 300 s '
 'thresholds (exactly at, +-1 ns), exact whole seconds, 0, sub-second, minutes, up to and beyond 2^32 s and the int64 range; offsets around +-1 ms, slew-saturating, '
 'MinInt64/MaxInt64; weights around 3 / 50 / 150, NaN, infinities, arbitrary bit patterns; epochs bumped after the controller\'s own step and externally at any '
 'point (incl. wrap values); a minority of histories with readings that go backwards (panic paths). Kind pll.large: large-but-legal inputs - initial and '
 'tracking offsets of hours to a year, gaps of 1-3 ns and of 1..400 days (+-1 ns, half seconds), offsets that put the slew at / within 3 ns of the 500 ppm clamp '
 'for the gain in force. Kind pll.longgap: the 292-year gap of the known finding, judged with every duration > 0. Non-trivial: at least 4 updates and at least '
 'one Step or Adjust call observed; distinct = distinct (kind, input)'),
    assumptions=['clock readings non-decreasing (the property\'s quantifier); histories with a backward reading are compared with the model but the oracle says nothing after the '
 'backward reading',
 'math.Pow(0.999, dt) is an oracle: 0 <= value <= 1 assumed in the theorems; on every run the harness supplies Go\'s value for its own dt and the runner checks that '
 'the model asked with bit-identical dt and that the value lies in [0,1]',
 'size-of-slew and duration clauses: less than 2^32 s (136 years) between consecutive updates; beyond 9223372036 s the real code\'s int64(ceil(dt)*1e9) overflows to '
 'MinInt64 (negative duration) -- reported as a boundary observation, accepted by the oracle only above the 2^32 s bound',
 'step argument equals the offset for every offset except MinInt64, where Inv(Inv(x)) = MinInt64+1 (C19_step_minint_refuted; accepted by the oracle at that one value)',
 'float64 arithmetic of Go on amd64 = IEEE-754 binary64 round-to-nearest-even without FMA contraction (Flocq BinarySingleNaN); int64(float64) = CVTTSD2SI; math.Ceil '
 'exact; time.Time as unbounded nanoseconds with saturating Sub'],
    trusted=['Flocq 4 (IEEE754.BinarySingleNaN/Bits, Core, Prop.Relative) as the float64 semantics; the history theorems use the four standard-library real-number/classical '
 'axioms through Flocq',
 'modelled, not verified: time.Time.Sub / Duration.Seconds / Duration.Abs, math.Ceil, math.Pow (oracle), log/slog (no effect on the clock)',
 'the fake clock of the harness stands for any timebase.SystemClock: the controller only calls Epoch, Now, Step, Adjust'],
    technique=('Coq: executable Gallina model of Pll.Do (mode machine, Inv, saturating Sub, bit-exact float64 gains/integrator/clamp); single-update theorems valid in every '
 'state; an inductive invariant linking the controller state to the state of the property oracle, with a numeric part (gains in [0,1/2] and [0,1/128], '
 '|integrator| <= 2^80 by monotonicity of rounding and RN(2^80+2^26)=2^80; relative-error bound for the clamp); differential execution of the extracted model '
 'against the real Pll, bit-exact on every Step/Adjust argument'),
    level_text=('Theorems quantify over all histories (any length, any int64 offsets, any float64 weights incl. NaN, any epochs, any non-decreasing readings): the property '
 'oracle, which decides the whole call sequence update by update (no call on the update that starts an epoch and while the initial step is awaited; exactly one '
 'Step by the offset, or no call if |offset| <= 1 ms, at the first update more than 2 s into the epoch with weight > 3; then never a Step, at most one sane Adjust '
 'per update, and once tracking an Adjust at every later reading), accepts the model\'s trace (C19_oracle_holds); Step only while awaiting the initial step under the stated conditions and by the measured offset; never a '
 'Step once past that mode; Adjust only in tracking mode with finite frequency, duration >= 1 s, at most the elapsed whole seconds, |offset| <= 500 ppm of the '
 'duration; epoch change restarts; no panic. The model is tied to the real code on every run by bit-exact comparison of all clock calls over thousands of '
 'boundary-dense histories, and the same oracle is evaluated on the implementation\'s observations'),
    level_note=('Trusted: Coq kernel, Flocq as float semantics, the hand-written model validated by the correspondence run, extraction, harness. C19_slew_bound_float_partial is '
 'the float-level clamp statement for up to 2^34 s, connected to histories only below 2^32 s; the MinInt64 step corner is a proved refutation, not a defect fix.'),
    explanation=('C19: the PLL steps only while awaiting its initial step, slews at most 500 ppm of the elapsed whole seconds once tracking, never requests a non-positive '
 'duration or non-finite frequency, and restarts on an epoch change'),
    timeout_quick=600,
    timeout_thorough=3000,
    min_cases={'pll.history': 1502, 'pll.large': 300, 'pll.longgap': 1},
)
