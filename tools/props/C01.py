"""Configuration of the C01 check (read by ./check and tools/mkmanifest.py)."""

CONF = dict(
    cmd='c01',
    props='Props/C01.v',
    rule=('sync.run: the real core/sync.Run driven for 1..20 rounds inside a testing/synctest bubble (fake SystemClock whose Drift is the real '
 'clocks.SystemClock.Drift for a configured drift, or a scripted value; Sleep counts rounds and ends the goroutine; recording Adjustment; scripted reference '
 'clocks and peers that answer a value, fail, answer after the deadline or block until the context ends). Families: histories with plausible configurations and '
 '0..7 sources per side; one-round boundary cases with the aggregated offsets placed on +-cap, +-cutoff, their doubles and halves +-2; peers walking across the '
 'cutoff from round to round; stale-value histories (a full first round, then mostly failing sources); configurations on both sides of every start-up threshold '
 '(factor 1 +- 1 ulp, peer - 1 vs reference incl. factors >= 2^53, interval 0/+-1, timeout 0/-1/half the interval +-1, drift 0/+-1, NaN, +-Inf); caps around '
 '2^53, 2^62, 2^63. Offsets over the whole int64 range incl. MinInt64/MaxInt64. sync.drift: SystemClock.Drift on (drift, interval) pairs. Non-trivial: a run '
 'that was refused at start-up, or a run with at least one source (so that a clamp, the cutoff or the midpoint can fire; which of them did is counted in the '
 'tags); a drift case with positive drift and interval. sync.config: the six TOML settings clock_drift / reference_clock_impact / peer_clock_impact / '
 'peer_clock_cutoff / sync_timeout / sync_interval (present or omitted, sane values, 0, -0, NaN, +-Inf, sub-nanosecond and beyond-int64 values) written to a '
 'configuration file and passed through the real loadConfig, clockDrift and syncConfig of timeservice.go (the real service binary built with -tags verif, hook '
 'timeservice_verif.go, one process per case); every configuration the service accepts is then run by the real sync.Run with the real SystemClock.Drift (family '
 'config of sync.run). The drift clause of the configuration oracle (drift_setting_ok): a drift that is not a number >= 0 must be refused; a positive drift must arrive as a positive '
 'number of ns per s or be refused (it used to be truncated to 0 = UnknownDrift below 1 ns/s: repaired in clockDrift); fixed cases 5e-10, 1e-10, 9.99e-10, 1e-9, 2e-9, '
 '5e-324, 1e10, +Inf, NaN with interval 1 s and timeout 0.5 s. All sync.config cases count as non-trivial. Further families of sync.run: deadline ties (up to three sources per scenario answer exactly at '
 'the deadline, delay = timeout: either outcome is accepted - the checker enumerates the resolutions, verdict relational), SyncTimeout = 0 (every immediate '
 'answer and the local clock are ties: only the clauses that hold for every offset are judged), 9..16 sources per side. single-source-hang (a side has exactly one source and it is late, blocked until the context ends, or ignores the context and comes back three intervals later). '
 'Every Do is observed with the virtual time that has passed since its round began; the oracle C01_deadline_ok demands that the one correction of a round is handed '
 'on no later than SyncTimeout after the round began, whatever the sources do (timing is not part of the Coq model: oracle only). sync.extreme: the fixed wrap witness and a '
 'family of both-side configurations with the peer cap in [2^62, 2^63) ns whose midpoint cannot wrap (one sign per round, all timely), judged with the bound at full '
 'strength. sync.wiring: go/ast check of runServer, runClient and createClocks of timeservice.go (one case per function, the observation is the list of broken '
 'rules). sync.clocks: generated configurations (0-3 NTP servers over IP or SCION, MBG/PHC/SHM reference clocks, 0-3 SCION peers) through the real loadConfig, '
 'localAddress and createClocks (hook timeservice_wiring_verif.go): configured servers are the reference clocks, configured peers the peer clocks, nothing else. '
 'sync.sleep: the real SystemClock.Sleep for 0, 1, 10, 100 ms, random durations and negative ones, elapsed time on the monotonic clock. sync.build: the service '
 'builds with -tags verif. distinct = distinct (kind, input)'),
    assumptions=['SystemClock.Sleep is judged on the monotonic clock with a tolerance of d/1000 + 50 us below d (CLOCK_REALTIME against CLOCK_MONOTONIC) and 10 s above (loaded machine)',
 'float64 arithmetic of Go on amd64 = IEEE-754 binary64 round-to-nearest-even without FMA contraction (Flocq BinarySingleNaN); int64(float64) = CVTTSD2SI '
 '(-2^63 when out of range); float64(int64) correctly rounded',
 'NaN and infinite impact factors are inside the quantifier: the oracle demands that Run refuses every NaN factor (since /repo 6abb997 the code tests !(x > y)); the only non-finite setting Run admits is a peer factor +Inf (peer cap +Inf)',
 'the clause "both sides contribute => correction within the peer cap" needs the peer cap below 2^62 ns (146 years of allowed correction per round); '
 'C01_midpoint_refuted_beyond_2p62 is the witness that timemath.Midpoint wraps beyond that',
 'the two Drift(SyncInterval) calls of one start-up return the same value (a deterministic clock); SyncInterval and the drift are int64 (time.Duration)',
 'slices.SortFunc returns a sorted permutation (the order of equal offsets is irrelevant: only offsets are used by Run)',
 'goroutine scheduling inside a round is irrelevant to the offsets a round sees (the multiset of timely answers is what collectMeasurements stores); runs with '
 'SyncTimeout = 0 and an immediately answering source are a genuine race of the implementation (both select cases ready) and are not generated'],
    trusted=['SYNTACTIC TIE (not executed): that runServer / runClient hand clockDrift(cfg), syncConfig(cfg) and the two lists of createClocks, unmodified and in this order, to the one `go sync.Run` call and register the same clock is established by a go/ast check of timeservice.go (harness/cmd/c01/wiring.go, kind sync.wiring), not by running these functions (they start listeners and discipline the machine clock)',
 'Flocq 4 (IEEE754.BinarySingleNaN/Binary/Bits) as the float64 semantics; the theorems depend on the four standard-library axioms Flocq/Reals use',
 'testing/synctest virtual time (GOEXPERIMENT=synctest), runtime.Goexit to end Run after the scripted rounds, prometheus.DefaultRegisterer swapped per scenario',
 'modelled, not verified: time.Duration.Abs / Seconds, context.WithTimeout, channel and select semantics of collectMeasurements, slices.SortFunc'],
    technique=('Coq proofs over a Gallina model of sync.Run: Flocq lemmas (exact products with +-1, truncation, monotone rounding, comparison totality, overflow cases of the cap) '
 'give the clamp and cap facts; a rounding-error analysis (relative error 2^-53 per operation, exact int64->float64 conversions of quotient and remainder, '
 'floor of a non-negative value) bounds SystemClock.Drift against drift x interval; case analysis gives the round-level statements; induction over the round list with the reused measurement slices as state gives '
 'the history statements and the theorem that every run satisfies the property oracle. Differential execution of the extracted model (bit-exact floats, exact '
 'event sequence Drift/Do/Sleep) against the real sync.Run under virtual time'),
    level_text=('Theorems quantify over all configurations, all int64 drifts, all numbers of reference clocks and peers and all multi-round histories of timely / failing / late '
 '/ missing answers over the whole int64 range: start-up refusal (iff), exactly one Do and one Sleep per round, each correction 0 / the bounded reference value / '
 'the bounded peer value / their midpoint according to who contributes, a peer offset within the cutoff contributes nothing, every correction within the cap '
 '(float64 comparison; integer inequality |c| <= floor(RN(factor x D)) below 2^53 ns). The model is tied to the Go code by comparing the complete event sequence '
 'of every scenario; the property oracle C01_ok (independent of the model of Run) and the drift oracle (Drift = drift x interval up to 2^-48 relative + 1 ns) are '
 "evaluated on the implementation's observations"),
    level_note=('Rounds with failed / late / missing sources: the oracle judges the bound and, from the answers it has seen (not from the model of the slices), the clause that peers which were never beyond the cutoff contribute nothing (C01_stale_peers_within_cutoff); the exact value there is the model comparison\'s business. History theorem with the full case analysis: C01_history_case_analysis. Configured drift: C01_accepted_drift_positive (an accepted drift is 0/omitted or positive in ns per s), C01_sub_ns_drift_refused. Not repaired, only noted: syncConfig truncates sync_interval / sync_timeout / peer_clock_cutoff the same way and treats a value that comes to 0 ns (e.g. sync_interval = -1e-10) as not configured (default), instead of refusing it; the defaults are admissible, so the bound is not void. Configuration values: C01_config_seconds_to_ns (seconds x 1e9 within 1 ns + 2^-52). ' 'Trusted: Coq kernel, Flocq as float semantics, hand-written model validated by the correspondence run, extraction, harness, synctest. SystemClock.Drift is now '
 'proved close to drift x interval (C01_drift_close: the model satisfies the drift oracle for every int64 drift and interval; C01_drift_within_1ns_2p50: 1 ns + 2^-50 '
 'relative; C01_bound_vs_exact_product: a correction that passes the comparison against factor x Drift(interval) is at most factor x drift x interval x (1 + 2^-49) in '
 'exact arithmetic) over the whole oracle range 0 < drift, 0 < interval, drift x interval < 2^62 ns. Rounds in which a source failed are checked by the oracle for '
 "the bound only (the stale values are the model's business) - the exact value is checked by the model comparison."),
    explanation=('sync.Run hands exactly one correction per round to the clock discipline and clamps each side to impact factor x Drift(SyncInterval) before combining; '
 'the proof shows this for every configuration that passes the start-up checks and for every history of source answers (including stale values left in the '
 'reused measurement slices), and the check replays thousands of scripted histories through the real Run under virtual time and compares every Do/Sleep/Drift '
 'event with the extracted model, evaluating the property oracle on what the implementation did'),
    timeout_quick=600,
    timeout_thorough=3000,
    min_cases={'sync.build': 1, 'sync.clocks': 45, 'sync.config': 90, 'sync.drift': 1800, 'sync.extreme': 30, 'sync.run': 2616, 'sync.sleep': 3, 'sync.wiring': 1},
)
