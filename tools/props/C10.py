"""Configuration of the C10 check (read by ./check and tools/mkmanifest.py)."""

CONF = dict(
    cmd='c10',
    props='Props/C10.v',
    rule=('honest NTS requests/responses/cookies are produced by the project\'s own code (NewRequestPacket, NewResponsePacket, EncodePacket, EncryptWithNonce, Encode) '
          'for random 32/64-byte keys, identifiers, headers and 1..8 cookies; each is then delivered unchanged, with every single bit flipped, with every extension/TLV '
          'type and length field (and the nonce/ciphertext length fields) replaced by boundary values, truncated, extended, with fields inserted/deleted/swapped/duplicated, '
          'under wrong keys (one bit, other direction, other session, wrong length), to the wrong direction, and in multi-exchange histories (response to another request, '
          'reflected request, spliced authenticator, other session). Non-trivial: the change touches an authenticated byte, the nonce, the ciphertext or a length field, '
          'or the key/direction/unique identifier is wrong, or the packet is an unchanged honest one (completeness); distinct = distinct (kind, input)'),
    assumptions=['symbolic AEAD: Open succeeds only on the output of Seal for the same key, nonce and associated data; Seal is injective (Section hypotheses, shown consistent by an instance)',
                 'TLS exporter uninterpreted; distinct contexts give distinct keys (checked on every run on a real TLS 1.3 handshake)',
                 'crypto/rand is an input (the nonce / unique identifier read from it is scripted)'],
    trusted=['modelled, not verified: github.com/miscreant/miscreant.go AES-SIV-CMAC (its answers are recomputed by the harness and passed to the model, which checks that its query is the one answered)',
             'crypto/tls ExportKeyingMaterial',
             'reflect is used to read the unexported position of the authenticator from nts.Packet',
             'hooks net/ntske/hooks_verif.go: Fetcher.VerifData (read the client\'s cookie store), Provider.VerifAge (age the key provider by a day)'],
    technique=('Coq proof over a Gallina model of nts.go/cookies.go with a symbolic AEAD: acceptance implies the ciphertext is the seal under the receiver\'s key over exactly '
               'the bytes before the authenticator; decoder/encoder round trip; tamper, key, direction, identifier and cookie corollaries; model tied to the code by '
               'differential execution on mutated honest packets, with the property oracle evaluated on the implementation\'s accept/reject decisions'),
    level_text=('Theorems hold for all keys, nonces, identifiers, headers, cookies and all byte strings presented to a receiver (no sampling), relative to the symbolic AEAD. '
                'The correspondence run drives the real encoder, decoder, ProcessRequest/ProcessResponse, the cookie functions, ExportKeys over real TLS and the real IP and SCION listeners.'),
    level_note='Crypto is symbolic (ideal AEAD); real AES-SIV is as good as its cryptographic assumption. Completeness is proved at byte level (C10_complete: DecodePacket after EncodePacket yields exactly the encoder\'s nonce, ciphertext and authenticator position, and NewRequestPacket/NewResponsePacket output is accepted under the sealing key; C10_complete_encoder for any fields within 1024 bytes) and additionally enforced by the run-time oracle. A client comparing with an identifier whose length is not a multiple of 4 rejects the padded echo (C10_complete_needs_padded_uid; the project\'s identifiers have 32 bytes). Both listeners are driven (srv.ip, srv.scion; the SCION one with plain SCION/UDP packets on an empty path, without SPAO). A listener that stops answering its sentinel is a failing case and the harness exits non-zero. No axioms.',
    explanation=('Case kinds: nts.req / nts.resp = real DecodePacket + ProcessRequest / ProcessResponse on honest and mutated packets (decode result, authenticator position, '
                 'error class, cookies kept are compared with the model; the oracle C10_packet_ok is evaluated on accept/reject); nts.encode / nts.newreq / nts.newresp = real encoder '
                 'byte for byte incl. the 1024-byte truncation/panic boundaries; ck.seal / ck.open / ck.hist / ck.tlv = cookie functions incl. multi-cookie histories (results read after '
                 'later openings); ke.export = ExportKeys on both ends of a real TLS 1.3 handshake; srv.ip / srv.scion = the real IP and SCION listeners with one real Provider (rotated once per round through the VerifAge hook, so requests arrive with cookies under older, still valid and expired keys), '
                 'the same request families as the receivers get (bit flips, every field type/length, fields inserted/deleted/swapped/duplicated, splices, wrong key/direction/key id), reply/no reply by sentinel, reply '
                 'verified with ProcessResponse, every re-issued cookie opened with the provider key it names (must be the current key and yield exactly the session\'s algorithm and keys), and a follow-up request with a re-issued cookie that must be answered; '
                 'after every rejected nts.resp case the (fresh) client Fetcher is read through VerifData and must hold nothing. Completeness of the encoder/decoder pair is proved in Coq through the byte encoding (Proofs/NtsAuthComplete.v: EncodePacket = wire format, DecodePacket of the wire format, '
                 'NewResponsePacket plaintext walked by authenticate; C10_complete, C10_complete_encoder) and also enforced by the oracle on every run (tag complete). Observation: AES-SIV never uses the CTR half of the key when the plaintext is empty (every NTS '
                 'request), so a C2S key differing only in its second half verifies the same request; wrong-key cases for requests therefore differ in the MAC half.'),
    timeout_quick=900,
    timeout_thorough=3000,
    min_cases={'ck.hist': 45, 'ck.open': 747, 'ck.seal': 76, 'ck.tlv': 493, 'ke.export': 1, 'nts.encode': 138, 'nts.newreq': 38, 'nts.newresp': 39, 'nts.req': 3040, 'nts.resp': 1917, 'srv.ip': 541, 'srv.scion': 541},
)
