"""Configuration of the C20 check (read by ./check and tools/mkmanifest.py)."""

CONF = dict(
    cmd='c20',
    props='Props/C20.v',
    glue='Extract/GlueC20.v',
    rule=('ke.hist: histories of 2..40 FetchData/StoreCookie calls on ONE real ntske.Fetcher (three TLS client configurations) against a scripted TLS 1.3 peer with a '
          'run-time self-signed certificate: messages a conforming server could send (records in any order, 1..10 cookies of 0..8000 bytes, server/port named or not) and '
          '22 kinds of changed ones (no end record, no/other/second algorithm record, no cookie, error records with any code and either critical bit anywhere, unrecognised '
          'critical records incl. warnings, unrecognised non-critical records, records after the end, repeated server/port, flipped critical bits, non-conforming body lengths, '
          'raw bytes), truncated at a random byte / at record boundaries +-1 / (sweep) at EVERY byte of one message, an error / unknown / second-algorithm record inserted at '
          'EVERY position, ten ALPN lists, connection refused, TCP accepted without handshake; the stream written as one TLS record, byte-wise, or in random pieces; the '
          'connection closed with close_notify, dropped, or kept open. Shapes: failure then probe/next exchange; exchange - use the pool up with cookies stored in between - '
          're-key; one-cookie pools; named target - failure - exchange naming nothing; StoreCookie calls no client makes; every history ends with calls that can reach no '
          'peer until the pool is empty, so leftover state shows. Observed per call: connections the peer saw, handshake/ALPN at the peer, the keys the PEER exported '
          '(own RFC 8915 label/contexts), error class, returned keys/server/port/algorithm/cookies. ke.target: the real client.MeasureClockOffsetIP with NTS: 1..3 '
          'measurements, each needing a new exchange that names a server and/or port or nothing; which of four UDP sockets gets the NTP request and whether it carries the '
          'cookie just issued. ke.own: Fetcher and client against the project\'s StartNTSKEServerIP + StartIPServer: cookies opened with the provider key and compared with '
          'the client\'s keys, authenticated measurement succeeds (the NTP listener is on a non-default port, so the Port record of newNTSKEMsg matters). ke.ownq: the same against '
          'StartNTSKEServerSCION (handleKeyExchangeQUIC) + StartSCIONServer with a QUIC Fetcher and the real SCION client. ke.starget: the real client.MeasureClockOffsetSCION with NTS '
          '(time server in the own AS, empty path; Fetcher over TLS or over QUIC): exchanges naming same host/other port, other host/same port, both, only one, nothing, and re-key '
          'sequences; observed: which UDP socket receives the datagram (underlay destination) AND destination host and port of the SCION/UDP header inside, cookie carried. '
          'ke.bodylen (known finding bodylen-shift-hides-records): messages whose next-protocol / algorithm / port record has a body of 4, 6 or 0 bytes, built so that the two-byte '
          'reads of ReadData move the record boundaries past a critical error record, past a second algorithm record (17), or onto an unrecognised record that is then read as '
          'the only cookie; TLS and QUIC; the model follows the code (agree), the oracle of this kind (C20_framed_ok) reads the message by the RFC 8915 framing and demands '
          'failure. ke.overlap: two or three goroutines call FetchData on ONE Fetcher while the scripted TLS peer holds the first connection in the middle of its message (after 0, 1 or 3 '
          'cookie records; the message then goes on to its end, to an error record, or breaks off); observed: every call\'s result, the peer\'s exporter values per connection '
          'in arrival order, VerifData afterwards; oracle: some order of the calls is a history the sequential oracle accepts and leaves what the Fetcher holds; model: the calls serialise, any order. '
          'Every third ke.hist history gives the Fetcher the name "localhost" (listener at 127.0.0.1) for some exchanges: the default server is the connection\'s remote '
          'address, not the configured name. Big acceptable messages (17..64 cookies, unrecognised non-critical bodies up to 60000 bytes, 255-byte server names, > 16 KB) on both transports. ke.quic: the same histories (same case format, 150 per quick run + a truncation sweep + every ALPN list) on a '
          'real Fetcher with QUIC.Enabled against a scripted QUIC/SCION peer (the project\'s scion.ListenQUIC, one AS, empty path; ALPN list per connection attempt, stream '
          'written in pieces, ended, held open, or the connection dropped before the first byte): a third of them are the D-C20b shapes (first exchange names nothing; named '
          'target - pool used up or a failure - exchange naming nothing; good exchange - exchange without algorithm record), one history has dial failures (nothing answers, '
          'handshake timeout) around exchanges; compared field by field with the model of the QUIC branch (default port 10123) and judged by the same oracle. A history is non-trivial (tag nt) when a failed exchange had delivered cookies before failing and is '
          'followed by another FetchData, or when it contains a successful exchange, a failed one and a call answered from the pool; distinct = distinct (kind, input)'),
    assumptions=['theorems about success <=> acceptance conditions, pool = cookies issued and target: records encoded as a conforming server encodes them (15-bit type, 2-byte '
                 'bodies of next-protocol/error/algorithm/port records, empty end record, bodies < 65536 bytes); the record SEQUENCE and the truncation point are arbitrary. '
                 'For arbitrary byte streams: success => ALPN ntske/1, >= 1 cookie, algorithm 15, keys = exporter values (C20_success_implies) and the oracle theorem',
                 'the TLS exporter is an uninterpreted function of (label, context, length); exporter_ok: the session answers the two RFC 8915 queries (TLS 1.3 always does)',
                 'crypto/tls ALPN negotiation as modelled by tls_negotiate (server picks the first of its protocols the client offered; none in common = fatal alert; a side '
                 'without a list = no ALPN); the server record is used as an IP literal by the client (net.ParseIP), outside the model',
                 'crypto/tls inside QUIC as modelled by quic_negotiate (RFC 9001 8.1: an application protocol is mandatory; a client offering a list gets a session only if '
                 'the server selects one of the offered protocols); QUIC/SCION path: both ends in one AS (the path lookup through the SCION daemon is not exercised; a missing '
                 'path is a dial failure in the model); a Fetcher never changes its transport (theorems and histories are per transport flag)',
                 'histories a client produces: StoreCookie only after a successful FetchData (others are run and compared with the model, the oracle abstains)'],
    trusted=['modelled, not verified: crypto/tls (handshake, ALPN, exporter), quic-go and net/scion QUIC transport (a stream delivers the bytes written before its end), bufio/io.ReadFull/encoding/binary.Read (reads of n bytes succeed exactly when n bytes arrive; proved '
             'independent of segmentation), miscreant AES-SIV (only in the harness, to open the own server\'s cookies)',
             'the scripted peers (harness/cmd/c20/peer.go, quic.go) and their independent ExportKeyingMaterial calls; error classes are read off error values/messages of net/ntske'],
    technique=('Coq proofs over an executable Gallina model: one-iteration function of the ReadData loop generic in the reader, fuel sufficiency, header-parse lemma, induction over '
               'record lists (model loop = specification scan), decomposition of any truncation into complete records + a proper prefix of one record (which always fails), '
               'simulation between chunked and whole-stream readers, case analysis of both branches of exchangeKeys (transport flag) and of FetchData, state-independence of the QUIC branch, and an invariant between the fetcher state and the oracle\'s '
               'own account of the pool preserved by every operation of every history; differential execution of the extracted model and evaluation of the oracle on the '
               'real Fetcher / IP client / key-exchange server every run'),
    level_text=('Theorems hold for all record sequences with conforming encodings (and the implication half for all byte streams), all truncation points, all ALPN lists, all '
                'segmentations, all exporters, both transports (TLS/TCP and QUIC/SCION) and all finite histories of FetchData/StoreCookie calls on a Fetcher of either transport; the model is tied to net/ntske, core/client and core/server by running '
                'generated histories on the real code against a scripted TLS peer, a scripted QUIC/SCION peer and the project\'s own servers every run; the C20 oracle is evaluated on the implementation\'s observations'),
    level_note=('Trusted: Coq kernel, hand-written model validated by the correspondence run, extraction, harness, crypto/tls. The TLS branch of exchangeKeys never closes its '
                'connection (observation, outside the property). KNOWN FINDING (not repaired): ReadData reads 2 bytes of fixed-size records whatever their length field says, so a '
                'message with such a record of another length can hide an error record from the client (C20_error_record_hidden_refuted, kind ke.bodylen); the success <=> '
                'acceptance theorems are therefore stated for 2-byte bodies of those records (strict scripts), where the code\'s parse is the framed parse. D-C20b (QUIC path discarded the dialQUIC defaults; fixed by 38f59d0) is covered: C20_quic_exchange_ignores_previous_state and '
                'the ke.quic histories (the reverse of the fix is detected). dialQUIC with a remote AS other than the local one and no SCION daemon calls a nil connector '
                '(observation, not exercised). No axioms.'),
    explanation=('oracle clauses: no connection while cookies are left and the returned keys/target/pool are those of the last exchange minus cookies used plus cookies stored; with an '
                 'empty pool exactly one connection (or a dial error when nothing listens); success iff ALPN ntske/1 and end record reached before any error/unrecognised critical '
                 'record with last algorithm 15 and >= 1 cookie among the completely delivered records; keys equal to the peer\'s exporter output; pool = cookies issued in order; '
                 'for scripts that are not strict: every cookie, a server other than the key-exchange host and a port other than the standard one occur in the bytes sent; '
                 'server/port = last named ones or key-exchange host/123 (over SCION: host of the configured remote address/10123); NTP request goes to that socket with the issued cookie; own server: cookies contain the client\'s keys'),
    timeout_quick=900,
    timeout_thorough=3000,
    min_cases={'ke.bodylen': 4, 'ke.hist': 802, 'ke.overlap': 9, 'ke.own': 3, 'ke.ownq': 3, 'ke.quic': 63, 'ke.starget': 19, 'ke.target': 14},
)
