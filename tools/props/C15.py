"""Configuration of the C15 check (read by ./check and tools/mkmanifest.py)."""

CONF = dict(
    cmd='c15',
    props='Props/C15.v',
    glue='Extract/GlueC15.v',
    rule='placeholder',
    assumptions=[],
    trusted=[],
    technique='placeholder',
    level_text='placeholder',
    level_note='placeholder',
    explanation='placeholder',
    timeout_quick=900, timeout_thorough=3000,
)
