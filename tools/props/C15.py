"""Configuration of the C15 check (read by ./check and tools/mkmanifest.py)."""

CONF = dict(
    cmd='c15',
    props='Props/C15.v',
    glue='Extract/GlueC15.v',
    rule=('five case kinds (and mp.race in the thorough tier). rand.intn: crypto.RandIntn(n) with crypto/rand.Reader replaced by a scripted tape of 32-bit words: n in 1..12, 2^k-1/2^k/2^k+1, 3*2^k, MaxInt32-3..MaxInt32, '
          'above 2^31 up to MaxInt64 (64-bit branch, incl. odd word counts), n <= 0 (panic); words at, one below, one above and inside the rejection threshold 2^32 mod n, multiples '
          'of n, 0..3, 2^32-1..2^32-3, random; live and cancelled contexts. rand.sample: crypto.Sample(k, n) for k,n in -2..40 (k <, =, > n; 0) on tapes built per draw from the same word '
          'classes, short tapes, cancelled contexts; the pick(dst, src) calls are recorded. mp.hist: histories of 2..10 rounds of the real client.MeasureClockOffsetSCION with 0..24 real '
          'SCIONClients (interleaved mode enabled or not; with a recording filter or without one - such a client reports the raw offsets of its exchanges, which are taken from its debug log; '
          'in one history in six some clients have Auth.NTSEnabled and fetch their keys from the peer\'s NTS-KE server over TLS) against a scripted SCION NTP peer on loopback that has one UDP socket per offered path '
          '(= underlay next hop of that path; clients are told apart by their DSCP value): 0..128 offered paths per round (around the number of clients, or far more: 13, 40, 100, 128) with fingerprint ids from a small or a large alphabet (equal fingerprints, the '
          'metadata-less path with the empty fingerprint), paths withdrawn / added / duplicated / reordered / all withdrawn between rounds; per client and request the peer answers '
          'conformantly (basic, then interleaved), always in basic mode, or with a reply the client rejects; per client the filter returns scripted offsets (equal values, 0, '
          'int64 extremes); the random tape of every round is scripted (threshold words for the draws of that round). Recorded per round and client: next hops reached, filter '
          'resets, form of every request, filter results, InInterleavedMode()/InterleavedModePath() afterwards; result class, offset, words consumed. A rand.intn case is non-trivial '
          'when its first word is rejected; a rand.sample case when 0 < k < n; a history when it contains a kept path, a reset of a client that was in interleaved mode and a '
          'round that consumed random words (mp.pather: and a refresh); distinct = distinct (kind, input). '
          'mp.pather: the same histories, but the path slice of every round is what the real scion.Pather (hook VerifNewPather/VerifUpdate = the unexported update) returns for the server\'s IA '
          'after refreshes from a scripted daemon.Connector between rounds: 1..4 pairwise distinct destination IAs (the server\'s IA among them or not), per refresh LocalIA succeeds or fails, the lookup '
          'of each IA succeeds or fails, path sets change between refreshes (paths withdrawn, added, duplicated fingerprints, reordered, all withdrawn, up to 128), rounds without a refresh in between '
          '(the slice handed out must be a copy: the round overwrites it), lookups with another source IA than the local one or without the refresh flag are refused / tagged; '
          'recorded per round: the (next hop, fingerprint) list Paths() returned and the round as in mp.hist; judged against the paths the daemon last reported. '
          'mp.pather.dupia: the same with one IA (the server\'s or another) listed two or three times among the destinations, anywhere in the list (two configured servers/peers in one AS). '
          'mp.race (thorough tier, command c15race built with -race): 600 plain and 150 pather histories in which at least two clients of every round use NTS (all clients share the remote '
          'address, given in 16-byte form; NTS replaces it by the address the key exchange names) run in a child process under the Go race detector; one case: did it report a data race'),
    assumptions=['paths are identified by their index in the offered slice; at most MaxInt64 paths',
                 'Pather: the daemon reports each path once per lookup (identities pairwise distinct); a failing lookup counts as no paths, a refresh whose LocalIA fails changes nothing; destinations may repeat (each AS is looked up once, 6f9a1f9); wildcard destinations (update panics) are not driven',
                 'a client without a filter reports the raw offset of its exchange: the model is given the observed offsets of such clients (their number, the request forms, the state and the midpoint are checked)',
                 'NTS is transparent to the path assignment: an NTS client differs only in the exchange (authenticated by the scripted peer with the keys of its NTS-KE session); server in another AS than the client (a server in the own AS makes an NTS client replace its path by the direct one)',
                 'the random generator is any finite list of 32-bit words followed by a constant word (every eventually constant stream); a constant tail that is always rejected makes the model answer Hang',
                 'within a history the previous exchange of a client is less than 3 s old and the server is the same (the harness ends a history with the round that finishes more than 2 s after the history began; a history normally takes about 10 ms)',
                 'a participant whose exchanges all fail contributes nothing to the midpoint (FaultTolerantMidpoint over ms[:n], n = successes collected); no successful measurement at all gives errNoMeasurement',
                 'reservoir uniformity is stated for exactly uniform draws; the deviation of RandIntn from uniform is the separate near-uniformity theorem',
                 'timestamps of the reported measurement are not modelled (only the offset and the error)'],
    trusted=['modelled, not verified: crypto/rand.Read (reads len(b) bytes from rand.Reader), snet.Fingerprint (equal metadata interfaces <=> equal fingerprint, empty for no metadata), '
             'slices.SortFunc inside measurements.FaultTolerantMidpoint (a sorted permutation, see C02), goroutines/channels of the collection step (every participant sends exactly one Measurement)',
             'the scripted SCION NTP peer of the harness (gopacket/slayers encoding of replies with an empty SCION path; NTS replies built with nts.ProcessRequest/NewResponsePacket, NTS-KE records over crypto/tls), the scripted daemon.Connector, and the kernel UDP loopback; the Go race detector (mp.race)'],
    technique=('Coq proofs over a Gallina model of crypto.RandIntn/Sample and of MeasureClockOffsetSCION: permutation invariant of the sticky loop with swap-remove, reservoir invariant '
               '(slots hold distinct earlier candidates, sources strictly increase) by induction over the pick list for every tape, counting of residue classes of accepted words by '
               'Euclidean division (nia), permutation invariance of the fault-tolerant midpoint, counting of enumerated draw vectors by induction over the draws, generalised over the reservoir state (a k-subset T with t members still to come is reached by t! (n-k)!/(i-k+t)! of the vectors from draw i on), giving (n-k)! vectors per k-subset, and the per-candidate inclusion probability k/n; '
               'a functional model of the Pather (association list of the destinations in first-occurrence order) with the theorem that Paths() is the last reported answer after any refresh sequence, for every destination list, and transfer of the round oracle from positions to path identities; '
               'the oracle is proved to accept every round of the model; differential execution of the extracted model against the real functions on scripted tapes and against the '
               'real MeasureClockOffsetSCION (fed directly or through the real Pather) over loopback SCION exchanges'),
    level_text=('Theorems hold for all numbers of clients and offered paths, all client states (in interleaved mode or not, previous path present / withdrawn / shared with other clients / '
                'duplicated among the offered paths), all tapes and all completion orders; near-uniformity of RandIntn for all 2 <= n < 2^31; reservoir uniformity is proved per subset '
                '(with exact uniform draws every k-subset of the n candidates is selected by exactly (n-k)! of the n!/k! draw vectors, for all k <= n; the statement is about the set of '
                'selected candidates, the slot order is not uniform) and per candidate (inclusion probability exactly k/n). The model is tied to the code on every run by replaying generated histories on the '
                'real MeasureClockOffsetSCION with real SCION clients and by comparing RandIntn/Sample with the model on scripted tapes; the C15 oracle is evaluated on the implementation\'s observations'),
    level_note=('Trusted: Coq kernel, hand-written model validated by the correspondence run, extraction, harness incl. its scripted peer. Hook: /repo/net/scion/hooks_verif.go (VerifNewPather, VerifUpdate: a Pather without the 15 s ticker and one call of the unexported update); otherwise exported API, replaced rand.Reader, '
                'recording filter, DSCP as client tag. No axioms. The earlier behaviour (failed participants counted as offset 0, all-fail round = offset 0 without error) was noticed while this check was built; /repo fixed it in 3dfc5bf; its reverse is one of the regression mutants.'),
    explanation=('oracle clauses per round: every client reaches at most one next hop, all reached hops are offered and pairwise distinct; participants = min(clients, paths); going through the '
                 'clients in order a client in interleaved mode keeps a path with the fingerprint of its previous exchange iff one is still available (then no filter reset, first request '
                 'in interleaved form), otherwise its filter is reset once and its first request is in basic form; errNoPath iff nobody can take part; offset = fault-tolerant midpoint '
                 'over the last filter results of the participants that measured something; errNoMeasurement iff none did. mp.pather: the same clauses with `offered` = the paths the scripted daemon last reported for the server\'s IA (the observed next hops are translated into positions in that list, an unknown next hop is rejected), so a path handed out twice, a stale or a missing path shows as two clients on one path / too many / too few participants. rand.intn: result in [0,n) and congruent to the accepted word; rand.sample: min(k,n) slots filled from distinct candidates'),
    timeout_quick=900, timeout_thorough=3000,
    extra_thorough=[dict(cmd='c15race', race=True)],
    min_cases={'mp.hist': 900, 'mp.pather': 450, 'mp.pather.dupia': 45, 'rand.intn': 9000, 'rand.sample': 3000},
)
