"""Configuration of the C04 check (read by ./check and tools/mkmanifest.py)."""

CONF = dict(
    cmd='c04',
    props='Props/C04.v',
    rule=('(time, reference) pairs: references 1970-2450 dense around the NTP era boundaries, time-reference distance at the window edges +-2^31 s, near 0 and random, '
 'nanoseconds at 0/999999999/next to every change of the 2^-32 fraction/random; a case is non-trivial when time and reference lie in different NTP eras inside '
 'the window; distinct = distinct (kind, input)'),
    assumptions=['time.Time modelled as unbounded nanoseconds since the Unix epoch (Unix() = floor division, Nanosecond() = remainder)',
 'reference times from 1970 up to Unix second 2^60; the window is taken on whole seconds, as the code uses the reference'],
    trusted=['modelled, not verified: time.Unix / Time.Unix / Time.Nanosecond of the Go standard library'],
    technique=('Coq proof (lia over Euclidean division) of the round-trip and order theorems on a Gallina model of Time64FromTime/TimeFromTime64 with explicit int64 wrap; '
 'model tied to the code by differential execution of the extracted model against the exported Go functions'),
    level_text=('Machine-checked theorems for all reference times 1970..Unix second 2^60 and all times in the +-2^31 s window at nanosecond granularity (no sampling); the '
 "model is tied to the Go code by running both on era-boundary-dense inputs every run, and the property oracle is evaluated on the implementation's own "
 'outputs'),
    level_note=('Trusted: Coq kernel, the hand-written model (validated by the correspondence run), extraction with ExtrOcamlBasic, the harness. Window taken on whole '
 'seconds as the code does. No axioms (Closed under the global context).'),
    min_cases={'ntp.cmp': 450, 'ntp.from64': 1800, 'ntp.order': 900, 'ntp.roundtrip': 3600, 'ntp.to64': 900},
)
