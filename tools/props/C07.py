"""Configuration of the C07 check (read by ./check and tools/mkmanifest.py)."""

CONF = dict(
    cmd='c06',
    props='Props/C07.v',
    glue='Extract/GlueC07.v',
    rule=('the histories of C06 (same generator), checked after every operation for: 1..8 exchanges per client, distinct receive stamps, queue value >= every stored stamp and '
          '== the newest one for clients whose requests arrived in timestamp order, queue array in binary-heap order, one queue entry per client at the recorded index, '
          'agreement of queue values and client sets with the model; plus floods: the real store filled to its capacity 2^20 with distinct clients and then hit by further '
          'unknown clients that are older than / exactly as recent as / 1 ns older than / newer than the least recently active client, after which the set of surviving '
          'clients, the store and queue sizes after every newcomer, heap order, indices and queue values are compared with the eviction rule; plus the lock-discipline check of '
          'the source. Non-trivial: histories as in C06, every flood; distinct = distinct (kind, input)'),
    assumptions=['one NTP era for "recency" (Time64.Before compares raw seconds)',
                 'container/heap meets its documented contract; the sequence of heap calls is not observable, the heap order and back-pointers of the queue array are checked after every operation',
                 'data-race freedom of the real binary is a Go-memory-model fact: the theorem is about code that accesses the store only inside critical sections of tssMu; that premise is checked syntactically on every run (tools/lockcheck) and supported by the race detector in the thorough tier'],
    trusted=['modelled, not verified: container/heap, sync.Mutex, Go maps and goroutines; tools/lockcheck (go/ast walk of core/server)'],
    technique=('Coq proof: the same inductive invariant as C06 gives the bounds, the agreement of index and map and queue value >= newest exchange for all capacities and histories; '
               'case analysis of the admission decision (evict only the minimum, only when full, only for a newcomer at least as recent; else stateless); a generic theorem that '
               'critical sections of one mutex serialise in lock order; differential execution incl. 2^20-client floods against the real constant capacity; syntactic lock-discipline check'),
    level_text=('Theorems hold for all capacities, all histories (incl. more distinct clients than the capacity) and all schedules of any number of goroutines whose accesses lie in '
                'critical sections of one lock; tied to the code by per-operation comparison of queue values/client sets, structural checks of the real queue array, floods at '
                'the real capacity, and the lock-discipline check of the source on every run'),
    level_note=('Partial: data-race freedom of the binary (lock-discipline model + syntactic check + race detector, not a proof about the Go memory model); container/heap by contract; '
                'No axioms.'),
    explanation='per-operation oracle: bounds, distinct stamps, qval >= stamps (== newest when in order), heap order, index/back-pointer consistency, sizes; flood oracle: survivors = eviction rule',
    timeout_quick=900, timeout_thorough=3000,
    extra_thorough=[dict(cmd='c07race', race=True)],
)
