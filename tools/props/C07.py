"""Configuration of the C07 check (read by ./check and tools/mkmanifest.py)."""

CONF = dict(
    cmd='c06',
    props='Props/C07.v',
    glue='Extract/GlueC07.v',
    rule=('the histories of C06 (same generator), checked after every operation for: 1..8 exchanges per client, distinct receive stamps, queue value >= every stored stamp and '
          '== the newest one for clients whose requests arrived in timestamp order, queue array in binary-heap order, one queue entry per client at the recorded index, '
          'agreement of queue values and client sets with the model, and - replayed on the verified container/heap model of the tssQueue array - the observed queue array '
          'EQUAL slot by slot to the model\'s array and the client\'s qidx equal to the model\'s back-pointer; plus floods: the real store filled to its capacity 2^20 with '
          'distinct clients and then hit by further '
          'unknown clients that are older than / exactly as recent as / 1 ns older than / newer than the least recently active client, after which the set of surviving '
          'clients, the store and queue sizes after every newcomer, heap order, indices and queue values are compared with the eviction rule; plus the lock-discipline check of '
          'the source. Thorough tier in addition (cmd/c07heap): histories with 16..64 clients (queue array several levels deep, equal queue values) with the same slot-by-slot '
          'comparison, and random Push/Pop/Remove/Fix sequences (arrays up to ~200 slots, many ties) on the real container/heap with a queue type carrying tssQueue\'s methods, '
          'array, back-pointers and popped element compared with the model after every call. Also: tss.full = operations on the store at 2^20 clients with real before/after items (known clients with 1..8 exchanges; the least recently active clients hold several exchanges, some with their newest one dropped again = queue value lowered '
          'at the root; newcomers older than / as recent as / 1 ns older than / newer than the root): bounds of every item and the ADMISSION decision judged against the root of the queue before the call; '
          'tss.conc = 8..32 goroutines calling handleRequest/updateTXTimestamp at once on the full store (each client driven by one goroutine, so its calls are ordered; newcomers evict / are served without state): '
          'replies, reported times and final items must be those of the model run per client in program order, queue array structurally sound (thorough: the same under -race, tss.race); '
          'lsn.hist = histories through the real IP/SCION listeners, after which the keys of the store must be exactly the ids of the clients answered, each once; the lock-discipline check also refuses: the item/queue '
          'type or its fields named outside handleRequest/updateTXTimestamp/queue methods, go statements or function literals in functions that hold tssMu, any use of tssMu other than Lock/Unlock, a tssMu that is not a plain sync.Mutex. '
          'Non-trivial: histories as in C06, every flood, deep histories that fix and remove '
          'with >= 16 queue slots, heap sequences with pop, remove and fix on >= 8 slots; distinct = distinct (kind, input)'),
    assumptions=['one NTP era for "recency" (Time64.Before compares raw seconds)',
                 'container/heap is the verified array heap of Model/TssHeap.v (up/down/Push/Pop/Remove/Fix transcribed from src/container/heap/heap.go, Less = strict <, Swap rewriting qidx): '
                 'heap order, back-pointers, contents and "Pop returns a minimum" are theorems; the transcription is tied to the real package by slot-by-slot comparison of the queue array '
                 'after every operation (Pop only through the queue-type replica of cmd/c07heap and, without layout, the 2^20 floods)',
                 'data-race freedom of the real binary is a Go-memory-model fact: the theorem is about code that accesses the store only inside critical sections of tssMu; that premise is checked syntactically on every run (tools/lockcheck) and supported by the race detector in the thorough tier'],
    trusted=['modelled, not verified: sync.Mutex, Go maps, slices and goroutines; tools/lockcheck (go/ast walk of core/server); the hand transcription of container/heap (validated by the layout comparison)'],
    technique=('Coq proof: the same inductive invariant as C06 gives the bounds, the agreement of index and map and queue value >= newest exchange for all capacities and histories; '
               'case analysis of the admission decision (evict only the minimum, only when full, only for a newcomer at least as recent; else stateless); a verified array heap '
               '(container/heap on tssQueue: heap order, qidx back-pointers and contents preserved by Push/Pop/Remove/Fix, fuel of up/down never exhausted, root = minimum) and a '
               'refinement proof: handleRequest/updateTXTimestamp with the real heap calls behave as the abstract model with victim = the popped root, for every operation and every '
               'history; a generic theorem that critical sections of one mutex serialise in lock order, instantiated with the store (C07_concurrent_calls_serialize: for any goroutines, programs of calls and schedule, store AND replies are those of Tss.run_log on the calls in lock order); frame theorems (a call touches only the item of its own client, C07_frame); differential execution incl. exact queue layout, 2^20-client floods against '
               'the real constant capacity; syntactic lock-discipline check'),
    level_text=('Theorems hold for all capacities, all histories (incl. more distinct clients than the capacity) and all schedules of any number of goroutines whose accesses lie in '
                'critical sections of one lock; the priority queue is the concrete container/heap array, proved to stay a heap with right back-pointers and to pop a minimum; tied to '
                'the code by per-operation comparison of queue values/client sets and of the exact queue array, structural checks of the real queue array, floods at '
                'the real capacity, and the lock-discipline check of the source on every run'),
    level_note=('Partial: data-race freedom of the binary (lock-discipline model + syntactic check + race detector, not a proof about the Go memory model). container/heap is no longer '
                'assumed by contract: it is modelled as code and verified; what remains trusted is that the transcription matches the package (checked by exact layout comparison; '
                'heap.Pop of the real store is reachable only by 2^20-client floods, whose layout is not recorded - Pop is compared on the real container/heap with a replica of '
                'tssQueue in the thorough tier). No axioms.'),
    explanation=('per-operation oracle: bounds, distinct stamps, qval >= stamps (== newest when in order), heap order, index/back-pointer consistency, sizes; flood oracle: survivors = eviction rule; '
                 'heap.ops oracle: heap order, distinct keys, qidx = slot index, Pop returned a least element; model comparison: exact queue array and qidx after every operation'),
    timeout_quick=900, timeout_thorough=3000,
    extra_thorough=[dict(cmd='c07race', race=True), dict(cmd='c07heap')],
    min_cases={'lsn.hist': 12, 'tss.conc': 1, 'tss.flood': 1, 'tss.full': 1, 'tss.hist': 210, 'tss.lockdiscipline': 1},
)
