"""Configuration of the C14 check (read by ./check and tools/mkmanifest.py)."""

CONF = dict(
    cmd='c14',
    props='Props/C14.v',
    rule=('NTP: every value of each 8-bit field and (thorough: every, quick: ~2000 per field) value of each 16-bit field with the other fields fixed, all 256 first bytes '
 'through the decoder, boundary-dense/random packets (0, max, 2^k+-1, single non-zero byte, all-bytes-distinct), byte strings of 0..148 bytes, all '
 '(lvm, argument) setter pairs, histories on one reused Packet and buffer. CSPTP message / request TLV / response TLV: the same sweeps per field, buffers of the '
 'declared length +-1 and longer filled with non-zero bytes, decode into structs holding other values, ill-formed values (ServerStateDS without the flag), '
 'histories encode/decode/replace-buffer. NTS: packets with 32..72-byte identifiers (aligned and not), 0..8 cookies of 0..140 bytes, 0..8 placeholders, '
 'cookies / identifiers up to ~900 bytes (255/256/257/300/512 included), 32- and 64-byte keys, encrypted cookie plaintexts whose cookies are observed after authentication, '
 'server responses through NewResponsePacket/ProcessResponse (1..12 cookies, cap at what fits, unequal lengths), hand-sealed packets with unknown extension fields between the known ones '
 '(authenticator position observed through acceptance), fresh and stale 1024-byte caller buffers, sizes at 1020/1024/1028 bytes, oversized packets; decoder fed mutated/truncated/lying '
 'encodings one after the other into one Packet. Server cookies: all 16-bit ids, key lengths 0..257, mutated TLVs, encrypt-decrypt. NTS-KE: record lists '
 '(server-shaped and arbitrary canonical records incl. unknown non-critical types, bodies of 255/256/257/300/1000 bytes, Error/Warning, no End, two messages on one connection, trailing bytes, 32768..65535-byte and >65535-byte bodies; the unread rest is compared also after an error) '
 'and mutated byte streams, each read whole, one byte at a time, half reads, data-with-EOF, and through random chunk schedules below default and 16..64-byte bufio buffers. '
 'Non-trivial: a case that exercises a full encode-decode, decode-re-encode or multi-segmentation comparison on a value inside the wire ranges (tag nt); '
 'distinct = distinct (kind, input)'),
    assumptions=['field values inside the ranges of their Go types; fixed byte arrays ([6]uint8 seconds, [3]uint8 organisation ids) read as one big-endian number',
 'CSPTP response TLV: ServerStateDS zero unless the flag bit is set (otherwise it is not on the wire); request TLV padding bytes are not data',
 'NTS nonce: Authenticator.pack always draws a 16-byte nonce itself (a caller-set Auth.Nonce is ignored), so 16 is the only length the encoder produces; the DECODER is not an inverse of the '
 'format for nonce lengths that are not a multiple of 4 (theorem C14_nts_nonce_padding_refuted, kind nts.fmt); such packets are refused by authenticate (nonce length != 16)',
 'NTS encrypted cookies: cookies shorter than 24 bytes inside the encrypted part are dropped by the 28-byte loop guard of authenticate (theorems C14_nts_walk_short, '
 'C14_nts_response_short_cookie_dropped); the project\'s servers issue 124-byte cookies only (C11_issued_cookie_length)',
 'NTS: unique identifier >= 32 bytes, packet within nts.MaxPacketLen (1024); nonce (16 bytes from rand.Read) and ciphertext (AEAD Seal, >= 16 bytes) are arbitrary inputs of the encoder model; '
 'a CookiePlaceholder decodes to its header only, a value to itself zero-padded to a multiple of 4',
 'NTS-KE: the decoder keeps algorithm, server, port and cookies; the NextProto value, the critical bits of Server/Port and unknown non-critical records are discarded (C14_ntske_projection); '
 'Algorithm records with other than one entry, Warning and Error records do not round-trip: their decode outcome is stated (C14_ntske_algorithms, _warning_record, _error_record, _meets_spec)',
 'server cookies with byte strings of 2^16 bytes or more have no wire form (16-bit length field): ck.enc makes no claim there (the model still predicts the bytes); '
 'errUnexpectedExtHdrType is unreachable through the exported API (DecodePacket only calls unpack with the matching type)',
 'quick tier: every value of the 8-bit fields, about 2000 of the 65536 values of each 16-bit field (all high bytes x a few low bytes and vice versa); the thorough tier sweeps all 65536',
 'server cookies: byte strings shorter than 2^16; NTS-KE: canonical record bodies (NextProto/Port/one-algorithm Algorithm 2 bytes, Cookie/Server bodies < 2^16 bytes)',
 'the reader below ReadData (bufio.Reader over TLS/QUIC) answers every Read of m > 0 bytes with a non-empty prefix (<= m bytes) of what is left, or EOF at the end'],
    trusted=['modelled, not verified: encoding/binary.Read/Write, io.ReadFull, bufio.Reader (as the reader oracle above), bytes.Buffer',
 'the AEAD (miscreant AES-CMAC-SIV) is outside the model: the ciphertext is read off the observed packet; that it authenticates is observed through nts.ProcessRequest',
 'crypto/rand.Reader is replaced by a scripted tape in the harness process so that the nonce is known'],
    technique=('Coq proofs over executable Gallina models: a generic big-endian field-layout library (decode(encode)=id, encode(decode)=bytes) instantiated for the NTP header and the '
 'three CSPTP layouts; buffer-writer refinement (sequence of PutUint16/copy = concatenation of fields) and a field-by-field decoder induction for NTS; TLV loop '
 'proofs for cookies; for NTS-KE a simulation proof between ReadData over any schedule of partial reads and ReadData over the whole stream (induction over io.ReadFull '
 'and over the record loop); finite sweeps by vm_compute for the LVM setters; models tied to the code by differential execution of the extracted models against '
 'the exported Go functions'),
    level_text=('Machine-checked theorems for all field values in wire range, all buffers, all byte strings and all segmentations of the NTS-KE stream (no sampling); fuel of every modelled '
 'loop proved sufficient. The models are tied to the Go code by running both on swept / boundary-dense / adversarial inputs and multi-step histories every run, and the '
 "property oracle (round trip, kind preservation, 4-byte alignment, declared lengths, segmentation independence) is evaluated on the implementation's own outputs"),
    level_note=('Trusted: Coq kernel, the hand-written models (validated by the correspondence run), extraction with ExtrOcamlBasic, the harness. AEAD and standard-library readers by contract. '
 'No axioms (every theorem Closed under the global context). ReadData is driven through in-memory readers of every segmentation; its call sites (exchangeDataTLS / exchangeDataQUIC, '
 'i.e. how the bytes of a TLS or QUIC connection reach ReadData) belong to C20, which drives them against scripted peers that write a message in several records (seeded change C14-m15 is decided there).'),
    explanation=('EncodePacket of net/nts silently truncates (copy) instead of failing when a packet exceeds 1024 bytes by less than a field; outside the property (callers cap the cookie count) '
 'and reproduced by the model. ReadData ignores the announced body length of NextProto/Algorithm/Port/Error records and reads 2 bytes: non-canonical bodies desynchronise the stream (model agrees).'),
    timeout_quick=900,
    timeout_thorough=3000,
    min_cases={'ck.crypt': 90, 'ck.dec': 360, 'ck.enc': 1005, 'csptp.hist': 225, 'csptp.msg.dec': 360, 'csptp.msg.enc': 2652, 'csptp.req.dec': 360, 'csptp.req.enc': 1275, 'csptp.resp.dec': 360, 'csptp.resp.enc': 3566, 'ke.records': 556, 'ke.stream': 150, 'ntp.dec': 526, 'ntp.enc': 2588, 'ntp.hist': 90, 'ntp.set': 3916, 'nts.dec': 450, 'nts.enc': 462, 'nts.resp': 225, 'nts.pos': 225, 'nts.req': 150, 'nts.redec': 150, 'nts.fmt': 110, 'dec.input': 4000},
)
