"""Configuration of the C14 check (read by ./check and tools/mkmanifest.py)."""

CONF = dict(
    cmd='c14',
    props='Props/C14.v',
    rule='TODO',
    assumptions=[],
    trusted=[],
    technique='TODO',
    level_text='TODO',
    level_note='TODO',
    explanation='',
    timeout_quick=600,
    timeout_thorough=3000,
)
