"""Configuration of the C11 check (read by ./check and tools/mkmanifest.py)."""

CONF = dict(
    cmd='c11',
    props='Props/C11.v',
    rule=('c11.hist: histories of 4..45 calls of the real core/client.IPClient (NTS enabled, real ntske.Fetcher) against the real NTS-KE server (TLS 1.3, run-time certificate) '
          'and the real NTP listener (server.StartIPServer) sharing one real ntske.Provider, through a relay of the harness that delivers, loses the request, loses the reply, '
          'flips one bit of the reply, replays an earlier reply, duplicates the request, lets the client run into its deadline, makes a needed key exchange fail in one of six ways (client refuses the certificate; through a front of the real NTS-KE server: peer closes at once, stream cut inside the handshake or the records, scripted TLS peer answering cookies then an Error record, cookies without End, unknown algorithm or no cookie), lets it succeed naming a server that is not an IP address, or injects a forged datagram with cleartext cookie fields ahead of the genuine reply; shapes: '
          'loss-free, k = 0..9 consecutive losses then recovery (every pool level 8..0), complete drain and re-keying (once or twice), random mixes, provider aged by '
          '1/23/25/30/47/49 h between calls (key rotation while old cookies stay valid), aged by 73..200 h (keys of the pooled cookies expire: server silent, pool drains, '
          're-key), a client quiet for two rotations but less than 72 h (must still be answered), loss-free operation across 4..6 rotations and more than 72 h in all, forged datagrams at every pool level. Recorded per call: request and reply datagrams, whether the cookie should open (under a key that was handed out as current and whose 72 h are not over - kept by the harness, independent of what the provider still holds), the current key id of the provider right after the reply, the reply opened with miscreant, every reply cookie opened the '
          'way the server opens cookies, pool and keys of the fetcher afterwards (verif hook), completed TLS handshakes. c11.shist: the same history shapes (loss-free runs of 10..13 calls, 1..9 consecutive losses, drain and re-key, rotation, expiry, failing key exchanges) through the real core/client.SCIONClient with packet authentication (SPAO, DRKey mock keys, USE_MOCK_KEYS=true) AND NTS enabled, against the real SCION listener behind a relay on a second loopback address and a second real NTS-KE server naming it; requests and replies are the NTP/NTS payloads of the SCION/UDP packets, pool read after every call. c11.srv (IP and SCION listener alike): cookies under keys that were rotated out but are valid (answered) and under expired keys (refused), each request sent once before the provider is aged; authenticated requests of any shape (1..3 '
          'cookies, 0..40 placeholders of 0..128 bytes, identifiers of 32..164 bytes) built with the real encoder and sent to the real listener. c11.req / c11.resp: '
          'nts.NewRequestPacket / NewResponsePacket + EncodePacket on crafted pools and cookie lists (pool level 0..14, cookie lengths 0..1100 dense around every length at '
          'which one field more or less fits, identifier lengths 0..940, keys of wrong length), compared byte for byte. c11.store: Fetcher.StoreCookie around MaxCookieLen. '
          'A history is non-trivial when it has a loss, a success and a refill below level 8 or a re-keying after a drain; a req/resp/srv case when it is at the issued '
          'cookie length or needs more than one field; distinct = distinct (kind, input)'),
    assumptions=['cookies of the length this project\'s servers issue (124 bytes) for the numeric clauses; general theorems for every cookie length of which at least one fits',
                 'server nonces fresh: the map from issue number to cookie is injective',
                 'AES-SIV: ciphertext = plaintext + 16 bytes; for C11_reply_authenticable open(seal(p)) = p (toy instance in Props/C11.v shows consistency)',
                 'cookies the client keeps are at most MaxCookieLen = 896 bytes long (StoreCookie ignores longer ones)',
                 'a call of the client is atomic with respect to its own fetcher (one goroutine per client, as in core/client)'],
    trusted=['modelled, not verified: miscreant AES-SIV (Section variable; the harness recomputes every seal/open with miscreant and the runner checks that the model asks for '
             'exactly that query), crypto/rand (unique identifier and nonces are inputs), crypto/tls and the NTS-KE record exchange (C20), the provider (C12)',
             'the verif hook net/ntske/hooks_verif.go (add-only: Fetcher.VerifData reads the cached data, Provider.VerifAge moves the provider\'s times into the past)',
             'the relay, the front of the NTS-KE server, the sentinel request that decides "no reply" (no verdict depends on a wall-clock allowance: the 1.5 s deadline of a timeout step may pass before the request leaves, which is recorded and accepted; everything else waits up to 60 s and only a hang is reported), and the re-opening of cookies with the project\'s own cookie decoder in the harness'],
    technique=('Coq proof: an inductive invariant of (pool, cookies sent, cookies issued) preserved by every call for all histories of successes, losses, failed key exchanges '
               'and foreign issues (no reuse, pool <= 8, never shrinks on success, 8 stays 8, loss-free = 8, two successes restore 8); arithmetic over Go\'s truncating division '
               'for maxCookies (fits, and maximal); the encoders modelled on the fixed 1024-byte buffer (silent truncation of copy, panic of PutUint16) and proved to produce '
               'the exact wire layout without panic. Correspondence: the extracted encoders/decoders/pool functions are compared byte for byte with the real datagrams and '
               'with the pool of the real fetcher after every call; the property oracle (own RFC 8915 field parser) is evaluated on every observation'),
    level_text=('Theorems hold for every finite history (any pattern of losses down to an empty pool, failed and successful re-keying, cookies issued to other clients in '
                'between), every pool level, and - for the fit clauses - every cookie and identifier length of which one cookie fits, with the numbers for 124-byte cookies '
                'spelled out; key rotation and expiry of the real provider are exercised by the correspondence run, where the oracle checks on the real code that every reply '
                'cookie opens under a currently valid key to the session keys'),
    level_note=('Partial: the clause "each reply cookie opens under a currently valid server key to the same session keys" and the client\'s decoding of the reply are not '
                'theorems here (cookie sealing/opening is C10/C14, key validity C12); they are enforced by the oracle on the implementation\'s observations, and the model of '
                'DecodePacket/authenticate is compared with the real pool after every call. The oracle is not proved about the byte-level model as one statement; each of its '
                'clauses is a theorem at the level of lengths, field lists and histories. The SCION listener (server_scion.go) has the same replenishment code but is not '
                'driven by this harness. No axioms.'),
    explanation=('oracle clauses: request <= 1024 bytes, tiles into extension fields, exactly one unique identifier, one cookie field, authenticator last, everything else typed '
                 '0x0304 and as long as the cookie, one placeholder per missing cookie unless one more would not fit; cookie never sent before, taken from the pool, gone from the '
                 'pool afterwards; pool <= 8, not smaller after an authenticated reply; key exchange only when the pool is empty; server answers every request whose cookie opens; '
                 'reply <= 1024, well formed, authenticates under S2C, one new cookie per requested field (fewer only if one more would not fit), each new, each sealed under the provider\'s current key and opening under a valid key to the session keys; every pool cookie was pooled before, came with this call\'s key exchange or inside the authenticated reply, none from a forged datagram; '
                 'a process that dies during a history is a failure'),
    timeout_quick=900, timeout_thorough=3000,
    min_cases={'c11.const': 1, 'c11.hist': 72, 'c11.req': 471, 'c11.resp': 540, 'c11.shist': 21, 'c11.srv': 148, 'c11.store': 90},
)
