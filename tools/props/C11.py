"""Configuration of the C11 check (read by ./check and tools/mkmanifest.py)."""

CONF = dict(
    cmd='c11',
    props='Props/C11.v',
    rule='TBD',
    assumptions=[],
    trusted=[],
    technique='TBD',
    level_text='TBD',
    level_note='TBD',
    explanation='TBD',
    timeout_quick=900, timeout_thorough=3000,
)
