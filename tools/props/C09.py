"""Configuration of the C09 check (read by ./check and tools/mkmanifest.py)."""

CONF = dict(
    cmd='c09',
    props='Props/C09.v',
    rule=('datagrams sent to the real IP and SCION listeners on loopback from 64 sockets (56 source ports on the listener address - the kernel hashes them over the 8 SO_REUSEPORT listener goroutines, so every goroutine serves several - and 8 on another address): all 256 first '
 'header bytes x lengths {0,47,48,49,50,75,76,100} (thorough: 0..50,76,100,1024,2048) with zero/random/server-look-alike/client/interleaved headers and zero/random/'
 'NTS-shaped/second-header trailing data; all lengths 0..64 and 1023..1025, 2047..2049, 2100, 4000; real NTS requests (real cookie, nts.NewRequestPacket) intact '
 'and damaged in 11 ways (before and after authentication) x valid/invalid first bytes; multi-step histories that reflect observed replies back, follow up in interleaved mode, switch sockets, send bursts of 2-7 datagrams back to back before the sentinel; fan histories (a valid NTS request from one socket, then plain requests from the same socket and from 4-43 other source ports, with damaged/valid NTS requests and arbitrary payloads mixed in: tags nts-then-plain-same / nts-then-plain-other); over '
 'SCION additionally IPv4/IPv6/service host address mixes, empty/SCION(1-3 segments)/one-hop paths, end-host-port underlay, wrong L4 port. Reply/no reply decided '
 'by a sentinel request sent afterwards from the same socket; the sentinel is itself a well-formed plain request and is judged by the oracle like every other exchange, so a listener that stops answering after some datagram is reported with that history as the failing input (the driver then finishes the history in flight with short waits and stops). Plus ntp.DecodePacket/ValidateRequest/EncodePacket and handleRequest called directly for every first '
 'byte. Non-trivial: the history contains a payload of at least 48 bytes (the decision depends on the first byte / the trailing data) or an NTS / reflected / '
 'interleaved step; distinct = distinct (kind, input)'),
    assumptions=['NTS branch (nts.DecodePacket, FirstCookie, cookie Decode, Provider.Get, Decrypt, nts.ProcessRequest) is one boolean input of the model; its contract: an NTS-valid payload is at most 1024 bytes, an authenticated request gets at least one cookie back (crypto/rand does not fail), nts.EncodePacket emits at most 1024 bytes; the harness recomputes the verdict with the same six exported calls on the same key provider',
 'receive/transmit stamps and the per-client timestamp store (C06/C07) are universally quantified inputs of the model; in the correspondence check they are read back from the observed reply',
 'SCION: header parsing/serialisation and Path.Reverse by scionproto are inputs (Reverse recomputed by the harness with the same library); packets without a packet-authenticator option (C13 covers SPAO); the theorems are stated for packets addressed to the listener (host address of 4 or 16 bytes, L4 destination port = listener port)',
 'a datagram longer than the 2048-byte receive buffer arrives with MSG_TRUNC (flags != 0) and is dropped'],
    trusted=['modelled, not verified: kernel UDP sockets and SO_REUSEPORT (one source 4-tuple stays on one listener goroutine, so the sentinel is handled after the probe), gopacket/scionproto slayers, miscreant AES-SIV',
 'the listeners run in a child process; a dead or silent child is reported as a failing case'],
    technique=('Coq proof: complete 256-value sweep of the first header byte by vm_compute lifted with forallb_forall; closed form of the listener decision for all byte strings '
 'of all lengths and all environments; induction over datagram histories with the receive buffer as loop state; reply header by computation. Correspondence: real '
 'StartIPServer/StartSCIONServer on loopback with the sentinel technique, the model evaluated as an acceptance predicate on every observed reply'),
    level_text=('Machine-checked theorems for all payloads (all 256 first bytes, all lengths, all trailing data), all histories and buffer states, all timestamps/store '
 'states/NTS verdicts: reply iff valid request, exactly one write to the sender, reply is v4/mode 4/stratum 1, a reply is never answered (no ping-pong), SCION '
 "reply header is the request's with IA/host/ports exchanged and the path reversed. The model is tied to the running listeners on every run; the property oracle is "
 "evaluated on the implementation's observations"),
    level_note=('Trusted: Coq kernel, the hand-written model (validated by the correspondence run), extraction, harness, kernel/scionproto/AEAD as inputs. No axioms '
 '(Closed under the global context).'),
    explanation='reply/no-reply of the real listeners is observed with a sentinel request; the oracle of a history is C09_hist_ok over the probe and sentinel exchanges of all its steps (C09_history_meets_oracle: it holds for the model on all histories); NTS verdict and Path.Reverse are recomputed by the harness with the exported functions the listener calls',
    timeout_quick=900,
    timeout_thorough=3000,
    min_cases={'consts': 1, 'ip': 1498, 'ntp.codec': 76, 'ntp.validate': 537, 'scion': 538, 'scion.onehop': 166, 'srv.handle': 76},
)
