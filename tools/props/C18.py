"""Configuration of the C18 check (read by ./check and tools/mkmanifest.py)."""

CONF = dict(
    cmd='c18',
    props='Props/C18.v',
    rule=('int64 nanosecond counts (extremes, multiples of a second +-1, powers of two +-2, random) for the timeval split; all-range and boundary scaled-ppm values; '
 'drift: (drift, interval) pairs incl. realistic drifts (1 us/s .. 1 ms/s and random) with intervals for which drift x interval exceeds 2^63 ns^2 while the '
 'allowance drift x interval / 1e9 stays below 2^62 ns (500 us/s x 6 h, 50 us/s x 60 h, log-uniform up to the limit; tag drift-product-over-int64), and triples '
 '(drift, d1, d2) observed at d1, d2 and d1 + d2 (kind units.drift_add); tag drift-oracle = the pair lies in the range the drift oracle constrains; 48-bit CSPTP seconds x nanoseconds incl. range ends and out-of-range times; 64-bit correction fields; '
 '(t0,t2,theta,delta,c1,c3) and (t0,t2,theta,d1,d2,c1,c3,utc) tuples for the offset/delay formulas with absolute times t0, t2 drawn from present-day Unix times '
 '(2020-2040, tag modern-time), the epoch, the ends of the int64 nanosecond range (tag extreme-time) and anything between; four arbitrary or present-day timestamps '
 'for kind csptp.formulas. kind csptp.client: the real CSPTP client (core/client.CSPTPClientIP.MeasureClockOffset) against a scripted responder on 127.18.<pid>:319/320 whose timestamps are theta ahead '
 '(0, +-ns .. +-1 s, +-37 s, days, up to 2^58 ns), with correction fields incl. negative ones and sub-ns bits, any int16 UTC offset with the valid flag on/off, other flag bits, both reply orders and 0-3 ms '
 'between the replies; kind csptp.ts_reencode: any 32-bit nanoseconds field incl. the last 48-bit seconds; kind units.callsites: go/ast check of the adjtimex call sites. Non-trivial: negative nanosecond counts, non-zero in-range ppm values, non-zero drift, wire '
 'round trips, negative correction fields with sub-ns bits, formula recovery cases; distinct = distinct (kind, input)'),
    assumptions=['float64 arithmetic of Go on amd64 = IEEE-754 binary64 round-to-nearest-even without FMA contraction (Flocq BinarySingleNaN); int64(float64) = CVTTSD2SI '
 '(-2^63 when out of range)',
 "CSPTP formula theorems: every int64 subtraction/addition of the Go code stays in int64 (t1-t0, t3-t2, these minus the corrections, their difference/sum; for the one-way delays also "
 "the UTC correction) - the property's 'combinations that do not overflow'; the absolute times are unrestricted",
 'csptp.client: client and responder read the same CLOCK_REALTIME of this machine, nobody steps it during a run (no harness ever calls adjtimex); kernel timestamps or the '
 'fallback time.Now() of a read-only stub clock; the oracle allows 1 us beyond the delay bounds the harness measures',
 'units.callsites is a SYNTACTIC tie (trusted): the adjtimex call sites in driver/clocks/sysclk_linux.go, core/sync/adjustments/{sys,pi}_linux.go cannot be executed; checked is that Timex.Time comes from '
 'TimevalFromNsec(<duration parameter>.Nanoseconds()) with ADJ_SETOFFSET|ADJ_NANO, Timex.Freq from ScaledPPMFromFreq with ADJ_FREQUENCY and is read back only through FreqFromScaledPPM, Timex.Offset from the '
 'duration parameter with ADJ_OFFSET|ADJ_NANO and STA_NANO, and that no other non-test file uses unix.Timex/ClockAdjtime',
 'drift clause: every non-zero int64 drift and int64 interval with |drift x interval| < (2^63 - 2^13) x 10^9 (all signs, C18_drift_odd / C18_drift_all_signs); the last 8192 ns below 2^63 wrap to MinInt64 (C18_drift_top_band); '
 'the drift ORACLE constrains 0 < drift, 0 <= interval, allowance < 2^62 ns',
 'frequency round trip: |x| <= 32768000 scaled ppm (the kernel range, 500 ppm); single directions: every float64 with |f| x 65536e6 < 2^62 resp. every int64'],
    trusted=['Flocq 4 (IEEE754.BinarySingleNaN/Binary/Bits) as the float64 semantics; theorems of this property that are purely integer are closed under the global '
 'context',
 'modelled, not verified: golang.org/x/sys/unix.Timeval layout, time.Duration.Seconds, Go float<->int conversions'],
    technique=('Coq proofs (lia with Euclidean division; Flocq for the float clauses) over a Gallina model of TimevalFromNsec, ScaledPPM/Freq, SystemClock.Drift and the '
 'csptp conversion/offset formulas; differential execution of the extracted model (bit-exact floats) against the Go functions'),
    level_text=('Theorems quantify over all int64 nanosecond counts, all 48-bit/ns CSPTP timestamps, all 64-bit correction fields and all non-overflowing offset/delay '
 'combinations; the float functions are modelled bit-exactly with Flocq and compared bit-for-bit with Go every run; the property oracle (normalisation, +-1 '
 'ulp ppm round trip, each conversion direction against exact rational arithmetic on the decoded float (sign, 2^-52 resp. 2^-51 relative), drift allowance >= 0, zero for the empty interval, within 1 ns + 2^-48 of drift x interval / 1e9, monotone and additive over two '
 "intervals, floor of correction fields, exact recovery of offset/delay and of both one-way delays under a UTC correction, all four CSPTP results against unbounded integer arithmetic, the real CSPTP client: offset = theta within the measured delay bounds, S2C delay exact, C2S and mean path delay within the bounds, independent of correction fields; re-encoded wire timestamps keep the instant; adjtimex call sites syntactically tied) is evaluated on the implementation's outputs"),
    level_note=('Trusted: Coq kernel, Flocq as float semantics, hand-written model validated by the correspondence run, extraction, harness. The +-1 ppm round-trip clause is '
 'proved for the whole kernel range by Flocq error analysis (C18_freq_roundtrip: the result is x or its neighbour toward zero). The drift clause is proved by Flocq error analysis '
 '(Proofs/UnitsFloatProofs.v: six roundings of at most 2^-53 each, no underflow/overflow, one truncation) on the range named in the assumptions; '
 'C18_drift_oracle and C18_drift_add_oracle state that the model meets both drift oracles on all int64 inputs.'),
    min_cases={'csptp.formulas': 750, 'csptp.interval': 752, 'csptp.recover': 750, 'csptp.recover_delays': 750, 'csptp.client': 300, 'csptp.ts_reencode': 750, 'units.callsites': 1, 'csptp.time_of_ts': 187, 'csptp.ts_of_time': 937, 'csptp.ts_roundtrip': 750, 'units.drift': 1503, 'units.drift_add': 750, 'units.freq_of_ppm': 250, 'units.ppm_of_freq': 250, 'units.ppm_roundtrip': 750, 'units.timeval': 752},
)
