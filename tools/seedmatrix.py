#!/usr/bin/env python3
"""Runs every seeded change under seeded/ against the check of its property (in scratch
worktrees, tools/seedtest.sh) and writes seeded/RESULTS.md: which check catches which change,
and how (failing input found / correspondence only / missed).  usage: tools/seedmatrix.py [Cxx ...] [-j N]"""
import concurrent.futures, json, os, re, subprocess, sys
ROOT = os.path.dirname(os.path.dirname(os.path.abspath(__file__)))
claimed = set(l.strip() for l in open(os.path.join(ROOT, "tools", "claimed.txt")) if l.strip())
args = [a for a in sys.argv[1:] if not a.startswith("-")]
jobs = 4
if "-j" in sys.argv:
    jobs = int(sys.argv[sys.argv.index("-j") + 1]); args = [a for a in args if a != str(jobs)]
seeds = sorted(d for d in os.listdir(os.path.join(ROOT, "seeded")) if re.match(r"C\d\d-m\d+$", d))
todo = [s for s in seeds if s[:3] in claimed and (not args or s[:3] in args or s in args)]

# seeded changes that belong to one property by their text but are (also) decided by another property's check
CROSS = {}
cp = os.path.join(ROOT, "tools", "seedcross.txt")
if os.path.exists(cp):
    for l in open(cp):
        f = l.split()
        if len(f) >= 2 and not l.startswith("#"):
            CROSS[f[0]] = f[1:]


def one(s):
    v = one_with(s, s[:3])
    if v[1] == "MISSED":
        for other in CROSS.get(s, []):
            w = one_with(s, other)
            if w[1].startswith("caught"):
                return s, w[1] + " (by the %s check; missed by %s)" % (other, s[:3]), w[2]
    return v


def one_with(s, pid):
    r = subprocess.run([os.path.join(ROOT, "tools", "seedtest.sh"), os.path.join(ROOT, "seeded", s, "patch.diff"), pid],
                       capture_output=True, text=True, cwd=ROOT)
    out = r.stdout + r.stderr
    if "patch does not apply" in out:
        return s, "patch no longer applies to /repo HEAD", ""
    m = re.search(r"disagreements=(\d+) oracle_rejections=(\d+)", out)
    viol = [l for l in out.splitlines() if l.startswith("VIOLATION")]
    if not viol:
        return s, "MISSED", m.group(0) if m else ""
    how = "correspondence only (no-failing-input-found)" if "no-failing-input-found" in viol[0] else "failing input found"
    return s, "caught: " + how, m.group(0) if m else ""

with concurrent.futures.ThreadPoolExecutor(jobs) as ex:
    res = list(ex.map(one, todo))
old = {}
path = os.path.join(ROOT, "seeded", "RESULTS.md")
if os.path.exists(path):
    for l in open(path):
        m = re.match(r"\| (C\d\d-m\d+) \| (.*?) \| (.*?) \| (.*?) \|$", l.strip())
        if m:
            old[m.group(1)] = (m.group(2), m.group(3), m.group(4))
for s, verdict, counts in res:
    meta = {}
    try:
        meta = json.load(open(os.path.join(ROOT, "seeded", s, "meta.json")))
    except Exception:
        pass
    old[s] = (verdict, counts, (meta.get("summary", "") or "")[:160].replace("|", "/").replace("\n", " "))
with open(path, "w") as f:
    f.write("# Seeded changes vs. checks\n\nEach row: a confirmed breaking change (patch.diff, demonstration and meta.json in the directory of that name), the\nverdict of the quick check of its property run against a scratch worktree with the change applied\n(`tools/seedtest.sh`), and the counts of that run.  Regenerate with `tools/seedmatrix.py`.\n\n| change | verdict | counts | what was changed |\n|---|---|---|---|\n")
    for s in sorted(old):
        f.write("| %s | %s | %s | %s |\n" % ((s,) + old[s]))
for s, verdict, counts in res:
    print(s, verdict, counts)
